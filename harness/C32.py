"""C32 — operations through a smart server match local operations."""
import collections
import hashlib
import json
import os
import time

from vf import env, tlc, core, world
from vf.tlaval import parse_value, to_py

META = dict(
    property_id="C32", level="model_checking", design_ref="DESIGN.md §4 C32",
    technique="TLA+ state machine of one branch + repository and the client operations on it (BranchOps: effect and "
              "return value of every operation defined once, no access path in the state) model-checked by TLC; paths of "
              "TLC's state graph - all lock-holding sessions with every observer after every call, plus a sample of an "
              "edge cover - replayed from identical fixtures on the local path and through bzr:// (in-process smart "
              "server, protocol v3, with and without VFS verbs); returned values and the on-disk projection recorded "
              "after every call and judged by TLC (BranchOpsTrace)",
    level_text="TLC enumerates every sequence of <= 4 (quick) / 5 (thorough) state-changing client operations "
               "(commit, fetch, set tip, generate_revision_history, pull, push, set/delete tag, set config option, "
               "lock_write / unlock) over 5 prepared revisions, 2 source branches, 2 tag names, 1 config key, with all "
               "reads (last_revision_info, revision_id_to_revno, get_rev_id, iter_merge_sorted_revisions, the dotted "
               "revno map, get_parent_map, get_revision + revision_tree, tags, config, all_revision_ids, pull / push "
               "out of the branch, token re-lock, contention) as self-loops, and proves the model's invariants. Paths of "
               "that graph are executed twice on real branches - BzrBranch on the backing transport and RemoteBranch "
               "over a real SmartServerPipeStreamMedium, ONE client object per path - and must agree step by step, with "
               "each other (the property) and with the specification (conformance). Cache coherence of the long-lived "
               "object is covered exhaustively for sessions lock_write . op . op with eight observers (tip, tags, "
               "merge-sorted history, dotted revnos, mainline, parent map, config, push-out through the VFS fallback "
               "object) before, between and after the operations.",
    level_note="Besides the sessions the replayed paths are a seeded sample of the transition cover, plus the shortest "
               "paths showing the known defects. A run that differs from the local one gets a known finding's signature "
               "only if it is exactly what a model of that defect (two tag caches; a stale missing-revision answer) "
               "predicts. Client and server live in one process (synchronous in-process medium; thorough repeats 40 "
               "paths through a real SmartTCPServer on loopback); protocol v3 only. Reads are made under a read lock, as "
               "the Repository API requires. Exception classes are compared; for generate_revision_history of an absent "
               "revision the smart verb's documented NoSuchRevision and the local GhostRevisionsHaveNoRevno are the "
               "same refusal. Trusted: TLC, the JSON bridge, BranchBuilder for the prepared revisions.",
)

# ----------------------------------------------------------------------------- the universe (mirrors BranchOps.tla)
G0 = [[], [1], [2], [1], [4, 3]]
NAMES = {1: "r1", 2: "r2", 3: "r3", 4: "x", 5: "m"}
SOURCES = {"A": (3, {"t1": 2}), "X": (4, {"t1": 4, "t2": 1})}
TAGS = ("t1", "t2")
CFG_KEY = "vk"
CFG_VALS = {None: 0, "v1": 1, "v2": 2}
UNKNOWN = 99
BADTREE = 98
VFS_OPS = {"commit", "pull", "pushout"}
MUTATORS = {"commit", "fetch", "settip", "genhist", "pull", "push", "settag", "deltag", "setcfg", "lock", "unlock"}
# documented representation differences of error classes (op -> {class -> canonical class})
ERR_EQUIV = {"genhist": {"GhostRevisionsHaveNoRevno": "NoSuchRevision"}}


def rid(r):
    if r == 0:
        return b"null:"
    return NAMES[r].encode() if r in NAMES else b"c%d" % r


def num(revid):
    if revid in (b"null:", None):
        return 0
    for k, v in NAMES.items():
        if v.encode() == revid:
            return k
    if revid[:1] == b"c" and revid[1:].isdigit():
        return int(revid[1:])
    return UNKNOWN


def exc_name(e):
    n = type(e).__name__
    if n == "UnknownErrorFromSmartServer":
        try:
            return "Server:" + e.error_tuple[1].decode().split(".")[-1]
        except Exception:
            return n
    return n


INVARIANTS = ("StateOK", "DoOK", "FetchSetTipIsOverwritePull", "OutIsAncestry")


def model_cfg(vfs, maxlen, quick, invariants=INVARIANTS):
    c = dict(Vfs="TRUE" if vfs else "FALSE", MaxLen=maxlen, MaxCommits=1 if quick else 2, MaxHeld=2,
             FetchRevs="{3, 4, 5}", TipRevs="{0, 1, 2, 4}", GenRevs="{3, 5}", TagRevs="{1, 3}", ReadRevs="{3, 4, 6}",
             ReadNos="{0, 2, 3}", CfgVals="{1, 2}", Srcs='{"A", "X"}')
    return ("SPECIFICATION Spec\nVIEW View\n" + "".join("INVARIANT %s\n" % i for i in invariants)
            + "CONSTANTS\n" + "".join("  %s = %s\n" % kv for kv in c.items()))


# ----------------------------------------------------------------------------- fixture
class Fixture:
    """Built once in the parent: the source repository with the prepared revisions, the branches A and X, and a
    template of the branch under test (holds r1, tip r1).  Every replay copies the template to a new MemoryServer."""

    def __init__(self, ctx):
        from breezy import controldir, branch as B, transport as T
        from dromedary import memory
        self.fmt = controldir.format_registry.make_controldir("2a")
        dag = [(NAMES[i + 1], [NAMES[p] for p in ps]) for i, ps in enumerate(G0)]
        self.src = world.build_dag(dag)
        self.srv = memory.MemoryServer()
        self.srv.start_server()
        self.url = self.srv.get_url()
        for name, (tip, tags) in sorted(SOURCES.items()) + [("T", (1, {}))]:
            b = controldir.ControlDir.create_branch_convenience(self.url + name, format=self.fmt, force_new_tree=False)
            b.repository.fetch(self.src.repository, revision_id=rid(tip))
            b.generate_revision_history(rid(tip))
            for t, r in sorted(tags.items()):
                b.tags.set_tag(t, rid(r))
        self.template = T.get_transport(self.url + "T")
        # expected content of every prepared revision (opaque tree ids of the spec)
        self.exp = {}
        repo = self.src.repository
        with repo.lock_read():
            pm = repo.get_parent_map([rid(r) for r in NAMES])
            got = [[num(p) for p in pm[rid(r)] if p != b"null:"] for r in sorted(NAMES)]
            if got != G0:
                ctx.machinery("prepared graph %s differs from BranchOps!G0 %s" % (got, G0))
            for r in NAMES:
                self.exp[r] = (world.tree_proj(repo.revision_tree(rid(r))), rev_meta(repo.get_revision(rid(r))))

    def source_branch(self, s):
        from breezy import branch as B
        return B.Branch.open(self.url + s)

    def expected(self, r, parent_of):
        """(tree projection, metadata) revision r must have; commits derive from their parent (parent_of: r -> p)."""
        if r in self.exp:
            return self.exp[r]
        p = parent_of.get(r)
        if p is None:
            return None
        base = dict(self.expected(p, parent_of)[0]) if p else {}
        base["f"] = ["file", hashlib.sha1(commit_text(r)).hexdigest(), False]
        base["f_c%d" % r] = ["file", hashlib.sha1(b"own c%d\n" % r).hexdigest(), False]
        return base, ["msg c%d" % r, "C <c@e.com>", 1000000100 + r, 0, [rid(p).decode()] if p else []]


def commit_text(r):
    return b"content of c%d\n" % r


def dotted(revno):
    """A revno tuple (n,) or (x, y, z) as three numbers."""
    return (list(revno) + [0, 0, 0])[:3] if len(revno) <= 3 else [UNKNOWN] * 3


def rev_meta(rev):
    return [rev.message, rev.committer, int(rev.timestamp), rev.timezone, [p.decode() for p in rev.parent_ids]]


FIX = None
TCP_PATHS = 40
KNOWN_DEFECT_PATHS = (
    (("lock",), ("settag", "t1", 1), ("pull", "X", 0), ("settag", "t1", 3)),     # t2, merged by the pull, is lost
    (("lock",), ("pull", "X", 0), ("deltag", "t1"), ("pull", "X", 0)),           # t1 is not merged again
    (("lock",), ("askabsent",), ("pushout",), ("commit",), ("parentmap",)),      # the committed revision stays "missing"
)
# TLC -continue reports the FIRST violated invariant of a state: most specific witnesses first
WITNESSES = ("WitnessCommitOnSide", "WitnessNestedLock", "WitnessPendingConfig", "WitnessGhostTag", "WitnessTagConflict",
             "WitnessDiverged", "WitnessMergedRows", "WitnessOffMainline")


class Session:
    """One client session on a fresh copy of the branch under test, through one access path."""

    def __init__(self, fx, mode):
        from breezy import branch as B, transport as T
        from dromedary import memory
        self.fx, self.mode = fx, mode
        self.srv = memory.MemoryServer()
        self.srv.start_server()
        self.base = self.srv.get_url()
        self.backing = T.get_transport(self.base)
        self.backing.mkdir("t")
        fx.template.copy_tree_to_transport(self.backing.clone("t"))
        self.media = []
        self.tcp = None
        self.tcp_transports = []
        self.b = self.open()
        self.b2 = None
        self.token = None
        self.seen_tokens = set()
        self.held = 0
        self.parent_of = {}           # commit revision -> its parent (for the expected trees)
        self.scratch = []

    def open(self):
        from breezy import branch as B
        if self.mode == "local":
            return B.Branch.open(self.base + "t")
        if self.mode == "tcp":
            # a real SmartTCPServer on the loopback interface, served by its own thread
            from breezy import transport as T
            from breezy.bzr.smart import server as S
            if self.tcp is None:
                self.tcp = S.SmartTCPServer(self.backing, client_timeout=3600.0)
                self.tcp._ACCEPT_TIMEOUT = 0.05
                self.tcp.start_server("127.0.0.1", 0)
                self.tcp.start_background_thread("-c32")
            t = T.get_transport_from_url(self.tcp.get_url())
            self.tcp_transports.append(t)
            self.media.append(t.get_smart_medium())
            return B.Branch.open_from_transport(t.clone("t"))
        rt, m = world.inproc_remote_transport(self.backing)
        self.media.append(m)
        return B.Branch.open_from_transport(rt.clone("t"))

    def close(self):
        for o in (self.b2, self.b):
            if o is None:
                continue
            for _ in range(4):
                try:
                    if not o.is_locked():
                        break
                    o.unlock()
                except Exception:
                    break
        for t in self.tcp_transports:
            try:
                t.disconnect()
            except Exception:
                pass
        if self.tcp is not None:
            self.tcp.stop_background_thread()
        for s in self.scratch:
            s.stop_server()
        self.srv.stop_server()

    def second(self):
        if self.b2 is None:
            self.b2 = self.open()
        return self.b2

    def fresh_local(self):
        """An empty local branch another party owns (target of pull / push OUT of the branch under test)."""
        from breezy import controldir
        from dromedary import memory
        s = memory.MemoryServer()
        s.start_server()
        self.scratch.append(s)
        return controldir.ControlDir.create_branch_convenience(s.get_url() + "L", format=self.fx.fmt, force_new_tree=False)

    # ---- normalisation of results
    def tagvals(self, d):
        extra = [k for k in d if k not in TAGS]
        return [num(d[t]) if t in d else 0 for t in TAGS] + ([UNKNOWN] if extra else [])

    def result(self, res):
        upd = getattr(res, "tag_updates", None) or {}
        conf = {c[0]: c for c in (getattr(res, "tag_conflicts", None) or ())}
        v = [res.old_revno, num(res.old_revid), res.new_revno, num(res.new_revid)]
        v += [num(upd[t]) if t in upd else 0 for t in TAGS]
        for t in TAGS:
            v += [num(conf[t][1]), num(conf[t][2])] if t in conf else [0, 0]
        if set(upd) - set(TAGS) or set(conf) - set(TAGS):
            v.append(UNKNOWN)
        return v

    def out_of(self, L, res):
        with L.lock_read():
            return (self.result(res) + self.tagvals(L.tags.get_tag_dict())
                    + sorted(num(r) for r in L.repository.all_revision_ids()))

    def tree_id(self, r, tree, rev):
        want = self.fx.expected(r, self.parent_of)
        if want is None:
            return BADTREE, 0
        return (r if world.tree_proj(tree) == want[0] else BADTREE), (1 if rev_meta(rev) == want[1] else 0)

    # ---- the operations
    def do(self, a):
        """Execute one action; returns [err, val]."""
        op = a[0]
        try:
            val = self._do(op, a)
            return ["", val]
        except Exception as e:          # the exception CLASS is the result
            n = exc_name(e)
            if self.mode == "tcp" and n in ("ConnectionReset", "ConnectionError", "ConnectionTimeout", "SocketConnectionError"):
                # the loopback socket failed (overloaded machine): not an answer of the smart server
                raise core.MachineryError("loopback TCP connection failed during %s: %s" % (a, e)) from e
            return [ERR_EQUIV.get(op, {}).get(n, n), []]

    def _do(self, op, a):
        b = self.b
        if op == "commit":
            tip = num(b.last_revision())
            new = max([len(G0)] + list(self.parent_of)) + 1
            mt = b.create_memorytree()
            with mt.lock_write():
                if tip == 0:
                    mt.add([""], ["directory"], ids=[b"root-id"])
                    mt.add(["f"], ["file"], ids=[world.file_id("f")])
                mt.add(["f_c%d" % new], ["file"], ids=[world.file_id("f_c%d" % new)])
                mt.put_file_bytes_non_atomic("f", commit_text(new))
                mt.put_file_bytes_non_atomic("f_c%d" % new, b"own c%d\n" % new)
                got = mt.commit("msg c%d" % new, rev_id=rid(new), timestamp=1000000100 + new, timezone=0,
                                committer="C <c@e.com>")
            self.parent_of[new] = tip
            return [num(got)]
        if op == "fetch":
            b.repository.fetch(self.fx.src.repository, revision_id=rid(a[1]))
            return []
        if op == "settip":
            b.set_last_revision_info(self.revno_of(a[1]), rid(a[1]))
            return []
        if op == "genhist":
            b.generate_revision_history(rid(a[1]))
            return []
        if op == "pull":
            return self.result(b.pull(self.fx.source_branch(a[1]), overwrite=bool(a[2])))
        if op == "push":
            return self.result(self.fx.source_branch(a[1]).push(b, overwrite=bool(a[2])))
        if op == "settag":
            b.tags.set_tag(a[1], rid(a[2]))
            return []
        if op == "deltag":
            b.tags.delete_tag(a[1])
            return []
        if op == "setcfg":
            b.get_config_stack().set(CFG_KEY, "v%d" % a[1])
            return []
        if op == "lock":
            tok = b.lock_write().token
            self.held += 1
            if self.held > 1:
                return [0 if tok == self.token else UNKNOWN]
            new = tok is not None and tok not in self.seen_tokens
            self.token = tok
            self.seen_tokens.add(tok)
            return [1 if new else UNKNOWN]
        if op == "unlock":
            b.unlock()
            self.held -= 1
            return []
        if op == "relock":
            b2 = self.second()
            tok = b2.lock_write(token=self.token).token
            b2.unlock()
            return [0 if tok == self.token else UNKNOWN]
        if op == "badtoken":
            b2 = self.second()
            b2.lock_write(token=b"not-a-token-anyone-issued")
            b2.unlock()
            return [UNKNOWN]
        if op == "contend":
            b2 = self.second()
            b2.lock_write()
            b2.unlock()
            return [1]
        # ---- reads (under a read lock, as the API requires)
        with b.lock_read():
            if op == "lastinfo":
                revno, tip = b.last_revision_info()
                return [revno, num(tip)]
            if op == "revnoof":
                return [b.revision_id_to_revno(rid(a[1]))]
            if op == "revidat":
                return [num(b.get_rev_id(a[1]))]
            if op == "askabsent":
                nxt = max([len(G0)] + list(self.parent_of)) + 1
                return [nxt] if b.repository.get_parent_map([rid(nxt)]) else []
            if op == "parentmap":
                # every revision that exists anywhere (prepared ones, present here or not, and the commits made so far)
                ids = sorted(set(range(1, len(G0) + 1)) | set(self.parent_of))
                pm = b.repository.get_parent_map([rid(r) for r in ids] + [b"unknown-id"])
                v = []
                for r in ids:
                    if rid(r) in pm:
                        ps = [num(p) for p in pm[rid(r)] if p != b"null:"]
                        v += [r, len(ps)] + ps
                if b"unknown-id" in pm:
                    v.append(UNKNOWN)
                return v
            if op == "readrev":
                rev = b.repository.get_revision(rid(a[1]))
                tree = b.repository.revision_tree(rid(a[1]))
                tid, meta = self.tree_id(a[1], tree, rev)
                return [tid, meta] + [num(p) for p in rev.parent_ids]
            if op == "mergesorted":
                v = []
                for revid, depth, revno, _eom in b.iter_merge_sorted_revisions():
                    v += [num(revid), depth] + dotted(revno)
                return v
            if op == "revnomap":
                m = {num(k): dotted(d) for k, d in b.get_revision_id_to_revno_map().items()}
                return [x for r in sorted(m) for x in [r] + m[r]]
            if op == "tags":
                return self.tagvals(b.tags.get_tag_dict())
            if op == "getcfg":
                return [CFG_VALS.get(b.get_config_stack().get(CFG_KEY), UNKNOWN)]
            if op == "allrevs":
                return sorted(num(r) for r in b.repository.all_revision_ids())
            if op == "pullout":
                L = self.fresh_local()
                return self.out_of(L, L.pull(b))
            if op == "pushout":
                L = self.fresh_local()
                return self.out_of(L, b.push(L))
        raise AssertionError("unknown op %r" % (op,))

    def revno_of(self, r):
        """The true revno of revision r (length of its left-hand history in the universe graph)."""
        n = 0
        while r:
            n += 1
            ps = G0[r - 1] if r <= len(G0) else ([self.parent_of[r]] if self.parent_of[r] else [])
            r = ps[0] if ps else 0
        return n

    # ---- what a fresh local open of the backing transport shows
    def disk(self):
        try:
            return self._disk()
        except Exception:
            # the stored branch cannot even be read: every field "unknown" (never equal to a specified projection
            # nor - because of the step's other fields - silently equal to the other access path's)
            return {"tip": UNKNOWN, "revno": UNKNOWN, "t1": UNKNOWN, "t2": UNKNOWN, "revs": [], "trees": [],
                    "cfg": UNKNOWN, "blocked": UNKNOWN, "rlocked": UNKNOWN, "extra": 97}

    def _disk(self):
        from breezy import branch as B
        f = B.Branch.open(self.base + "t")
        extra = 0
        with f.lock_read():
            revno, tip = f.last_revision_info()
            tags = self.tagvals(f.tags.get_tag_dict())
            revs = sorted(num(r) for r in f.repository.all_revision_ids())
            trees = []
            for r in revs:
                try:
                    tid, meta = self.tree_id(r, f.repository.revision_tree(rid(r)), f.repository.get_revision(rid(r)))
                    trees.append(tid if meta else BADTREE)
                except Exception:
                    trees.append(BADTREE)
            cfg = CFG_VALS.get(f.get_config_stack().get(CFG_KEY), UNKNOWN)
            blocked = 1 if f.get_physical_lock_status() else 0
            rlocked = 1 if f.repository.get_physical_lock_status() else 0
        if len(tags) > len(TAGS):
            extra += 1
        return {"tip": num(tip), "revno": revno, "t1": tags[0], "t2": tags[1], "revs": revs, "trees": sorted(trees),
                "cfg": cfg, "blocked": blocked, "rlocked": rlocked, "extra": extra}


def replay_run(fx, acts, mode):
    """[[err, val, disk], ...] of one behaviour through one access path."""
    novfs = mode == "novfs"
    if novfs:
        os.environ["BRZ_NO_SMART_VFS"] = "1"
    else:
        os.environ.pop("BRZ_NO_SMART_VFS", None)
    s = Session(fx, mode if mode in ("local", "tcp") else "remote")
    steps = []
    try:
        for a in acts:
            err, val = s.do(a)
            os.environ.pop("BRZ_NO_SMART_VFS", None)      # the projection is an ordinary local open
            steps.append([err, val, s.disk()])
            if novfs:
                os.environ["BRZ_NO_SMART_VFS"] = "1"
        proto = sorted({m._protocol_version for m in s.media if m._protocol_version is not None})
        reqs = sum(getattr(m, "requests", 1) for m in s.media)
    finally:
        s.close()
        os.environ.pop("BRZ_NO_SMART_VFS", None)
    return steps, proto, reqs


def first_difference(acts, ref, other):
    """(step index, 'returns' | 'state', detail) of the first disagreement between two recorded runs."""
    for k, (x, y) in enumerate(zip(ref, other)):
        if x[:2] != y[:2]:
            return k, "returns", "%s-vs-%s" % (x[0] or "value", y[0] or "value")
        if x[2] != y[2]:
            return k, "state", "+".join(sorted(f for f in x[2] if x[2][f] != y[2].get(f)))
    if len(ref) != len(other):
        return min(len(ref), len(other)), "length", ""
    return None


# ----------------------------------------------------------------------------- the known defect, modelled exactly
# Tag operations of a RemoteBranch go two ways: set_tag / delete_tag / tag reads / push INTO it / pull OUT of it use
# RemoteBranch's own tag cache (_tags_bytes) and the Branch.set_tags_bytes verb; pull INTO it and push OUT of it run on
# the VFS fallback object _real_branch, which has a tag cache of its own.  While the client holds the write lock both
# caches live, and a tag write on one side does not reach the other (known finding).  What the unchanged code does then
# is deterministic, and is modelled here so that ONLY that behaviour gets the known finding's signature:
#   * a cache is filled from the stored tags on first use and replaced by what its side writes;
#   * both are dropped when the outermost lock is released and when RemoteBranch changes the tip by a verb
#     (set_last_revision_info, generate_revision_history, commit, a push INTO the branch that sets the tip);
#   * a pull INTO the branch that sets the tip drops the _real_branch cache only (BzrBranch.set_last_revision_info);
#   * a tag merge writes only when it changes the dictionary it read.
TAG_VERB_USERS = {"settag", "deltag", "push", "tags", "pullout"}
TAG_REAL_USERS = {"pull", "pushout"}


def merge_tags(src, dst, ov):
    """_reconcile_tags for the two names: (result, [update t1, update t2, conflict t1 src, dst, conflict t2 src, dst])."""
    res, upd, conf = dict(dst), [], []
    for t in TAGS:
        sv, dv = src.get(t, 0), dst[t]
        takes = sv and sv != dv and (dv == 0 or ov)
        clash = sv and dv and sv != dv and not ov
        if takes:
            res[t] = sv
        upd.append(sv if takes else 0)
        conf += [sv, dv] if clash else [0, 0]
    return res, upd + conf


def known_defect_prediction(acts, local):
    """The run through bzr:// (VFS verbs enabled) that the unchanged code with its KNOWN tag-cache defect produces:
    the local run with every tag-related return value and the stored tags replaced by what the two-cache model gives.
    Equals the local run whenever the two caches never disagree."""
    D = {t: 0 for t in TAGS}          # stored tags
    cache = {"verb": None, "real": None}
    held, tip = 0, 1
    out = []
    for a, (err, val, disk) in zip(acts, local):
        op, perr, pval = a[0], err, list(val)
        locked = held > 0

        def view(side):
            if not locked:
                return dict(D)
            if cache[side] is None:
                cache[side] = dict(D)
            return dict(cache[side])

        def write(side, v):
            D.clear()
            D.update(v)
            if locked:
                cache[side] = dict(v)

        def drop(*sides):
            for x in sides:
                cache[x] = None

        moved = disk["tip"] != tip
        if op == "settag":
            v = view("verb")
            v[a[1]] = a[2]
            write("verb", v)
        elif op == "deltag":
            v = view("verb")
            if v[a[1]] == 0:
                perr, pval = "NoSuchTag", []
            else:
                perr, pval = "", []
                v[a[1]] = 0
                write("verb", v)
        elif op == "tags":
            v = view("verb")
            pval = [v[t] for t in TAGS]
        elif op in ("pullout", "pushout") and not err:
            v = view("verb" if op == "pullout" else "real")
            tv = [v[t] for t in TAGS]
            pval = pval[:4] + tv + [0, 0, 0, 0] + tv + pval[12:]
        elif op in ("push", "pull") and not err:
            side = "verb" if op == "push" else "real"
            if a[2] or moved:                       # the tip is set before the tags are merged
                drop("verb", "real") if op == "push" else drop("real")
            v = view(side)
            res, report = merge_tags(SOURCES[a[1]][1], v, bool(a[2]))
            if res != v:
                write(side, res)
            pval = pval[:4] + report + pval[10:]
        elif op in ("settip", "genhist", "commit") and not err:
            drop("verb", "real")
        elif op == "lock":
            held += 1
        elif op == "unlock" and held:
            held -= 1
            if not held:
                drop("verb", "real")
        tip = disk["tip"]
        out.append([perr, pval, dict(disk, **{t: D[t] for t in TAGS})])
    return out


REPO_READS = {"parentmap", "askabsent", "mergesorted", "revnomap", "readrev", "allrevs", "pullout", "pushout", "revnoof",
              "revidat"}


def stale_missing_revision_class(acts, k, mode, local, remote):
    """Input class of the known defect 'a write-locked RemoteRepository that was told a revision is missing keeps
    saying so after that revision is committed through it, once its VFS fallback repository was attached before the
    commit': the first local/remote difference is at a repository / history read; under the lock still held there
    the client asked for the id of the next commit (askabsent), then committed it; an operation that attaches the
    fallback objects (pull INTO, push OUT, commit) came before that commit; and the local answer names the
    committed revision."""
    if mode not in ("vfs", "tcp") or acts[k][0] not in REPO_READS:
        return False
    held, asked, attached, stale = 0, False, False, None
    for a, step in zip(acts[:k], local):
        op = a[0]
        if op == "lock":
            held += 1
        elif op == "unlock" and held:
            held -= 1
            if not held:
                asked, stale = False, None
        elif op == "askabsent" and held:
            asked = True
        elif op == "commit" and not step[0]:
            if asked and attached:
                stale = step[1][0]
            asked = False
        if op in VFS_OPS:
            attached = True
    return stale is not None and held > 0 and (stale in local[k][1]) and (stale not in remote[k][1])


def compare_runs(acts, mode, local, remote):
    """Verdicts on one bzr:// run: list of (signature, description, step index, what).  The first entry, if any, is at the
    first step where the run differs from the local one."""
    d = first_difference(acts, local, remote)
    if d is None:
        return []
    k, what, detail = d
    verdicts = []
    ref = local
    if mode in ("vfs", "tcp") and k < len(acts):
        pred = known_defect_prediction(acts, local)
        if pred[k] == remote[k] and pred[k] != local[k]:
            op = acts[k][0]
            cls = ("real-branch-tag-use-after-verb-tag-write" if op in TAG_REAL_USERS
                   else "verb-tag-use-after-real-branch-pull" if op in TAG_VERB_USERS else None)
            if cls:
                verdicts.append(("tags-differ:RemoteBranch-vs-_real_branch-tag-cache:write-locked:%s" % cls,
                                 describe(acts, mode, k, what, local, remote), k, what))
                ref = pred                      # from here on the run is held against the known behaviour
                d = first_difference(acts, pred, remote)
                if d is None:
                    return verdicts
                k, what, detail = d
    if k < len(acts) and what == "returns" and stale_missing_revision_class(acts, k, mode, ref, remote):
        verdicts.append(("revision-missing:RemoteRepository-missing-keys-cache:write-locked:asked-then-committed-with-fallback-attached",
                         describe(acts, mode, k, what, ref, remote), k, what))
        return verdicts                         # what this repository object says about that revision is not followed further
    op = acts[k][0] if k < len(acts) else "-"
    verdicts.append(("%s-differ:%s:%s:%s" % (what, op, mode, detail), describe(acts, mode, k, what, ref, remote), k, what))
    return verdicts


def describe(acts, mode, k, what, ref, remote):
    if k >= len(acts):
        return "the bzr:// (%s) run has %d steps, the local one %d" % (mode, len(remote), len(ref))
    return "step %d %s through bzr:// (%s) %s: local %s, remote %s" % (
        k + 1, acts[k], mode, what, ref[k][:2] if what == "returns" else ref[k][2],
        remote[k][:2] if what == "returns" else remote[k][2])


def replay_paths(sub, chunk):
    fx = FIX
    for acts, modes in chunk:
        runs = {}
        nreq = 0
        for mode in modes:
            steps, proto, reqs = replay_run(fx, acts, mode)
            runs[mode] = steps
            if mode != "local":
                if proto != [3]:
                    sub.machinery("smart protocol version %s negotiated, expected 3" % proto)
                if reqs == 0:
                    sub.machinery("the remote replay made no smart request")
                nreq += reqs
        for mode in modes[1:]:
            verdicts = compare_runs(acts, mode, runs["local"], runs[mode])
            for sig, text, k, what in verdicts:
                sub.violation(sig, text, {"acts": acts[:k + 1], "mode": mode, "step": k + 1, "first": verdicts[0][2] + 1,
                                          "path": json.dumps(acts),
                                          "local": runs["local"][k] if k < len(acts) else None,
                                          "remote": runs[mode][k] if k < len(acts) else None})
        sub.count(len(acts) * len(modes), traces=len(modes))
        muts = tuple(json.dumps(a) for a in acts if a[0] in MUTATORS)
        if len(muts) >= 2:
            sub.nontrivial((muts, tuple(json.dumps(a) for a in acts)))
        sub.cov.setdefault("_collect", []).append({"acts": acts, "runs": [[m, runs[m]] for m in modes], "requests": nreq})
        if len(sub.cov["samples"]) < 1 and len(acts) >= 6 and len(modes) == 3:
            sub.sample({"acts": acts, "local": [s[:2] for s in runs["local"]], "final_disk": runs["local"][-1][2],
                        "remote_equal": all(runs[m] == runs["local"] for m in modes)})


# ----------------------------------------------------------------------------- paths through TLC's graph
def parse_action(label):
    """'Op(<<"pull", "A", 1>>)' -> ["pull", "A", 1]"""
    inner = label[label.index("(") + 1:label.rindex(")")]
    return list(to_py(parse_value(inner)))


def cover(nodes, edges, inits, rng, max_len):
    """Init-rooted paths that together take every edge: the shortest way to a node (state-changing operations only),
    then that node's not yet taken self-loops (the reads, and the writes that change nothing there) in random order,
    then on through a not yet taken edge to the next node, and so on up to max_len steps."""
    out = collections.defaultdict(list)
    for e in edges:
        out[e[0]].append(e)
    parent = {i: None for i in inits}
    order = list(inits)
    q = collections.deque(inits)
    while q:
        x = q.popleft()
        for e in out[x]:
            if e[2] not in parent:
                parent[e[2]] = e
                order.append(e[2])
                q.append(e[2])
    todo = {x: list(out[x]) for x in order}
    for x in todo:
        rng.shuffle(todo[x])
    taken = set()

    def take(e):
        taken.add(e)

    def pending(x):
        todo[x] = [e for e in todo[x] if e not in taken]
        return todo[x]

    paths = []
    for x in order:
        while pending(x):
            p = []
            y = x
            while parent[y] is not None:
                p.append(parent[y])
                y = parent[y][0]
            p.reverse()
            for e in p:
                take(e)
            cur = x
            while len(p) < max_len and pending(cur):
                loops = [e for e in todo[cur] if e[2] == cur]
                e = loops[0] if loops else todo[cur][0]
                take(e)
                p.append(e)
                cur = e[2]
            paths.append(p)
    if len(taken) != len(set(edges)):
        raise core.MachineryError("cover takes %d of %d edges" % (len(taken), len(set(edges))))
    return paths


# what the client looks at after every state-changing call of a SESSION (below): each observer reads through one of the
# caches a branch / repository object keeps while it is locked - last_revision_info, tags (RemoteBranch's), the merge-
# sorted history and the dotted-revno map, the mainline (get_rev_id), the repository's parent map, the pending
# configuration, and (push OUT of the branch) the tip, history and tags as the VFS fallback object sees them
OBSERVERS = (["lastinfo"], ["tags"], ["mergesorted"], ["revnomap"], ["revidat", 2], ["parentmap"], ["getcfg"], ["pushout"])


def session_paths(ctx, edges, inits, nmut):
    """SESSIONS: behaviours of the graph in which ONE branch object is kept write-locked across several calls -
    lock_write, then nmut state-changing operations, with all OBSERVERS before the first and after each of them (the
    observers are self-loops of the graph).  All such paths of the graph, in a fixed order; releasing the lock ends a
    session."""
    out = collections.defaultdict(list)
    acts = {}
    for x, lab, y in edges:
        if lab not in acts:
            acts[lab] = parse_action(lab)
        out[x].append((acts[lab], y))

    def observed(x):
        loops = [a for a, y in out[x] if y == x]
        missing = [o for o in OBSERVERS if o not in loops]
        if missing:
            ctx.machinery("observers %s are not operations of the state graph" % missing)
        return [list(o) for o in OBSERVERS]

    paths = []

    def extend(path, x, left):
        path = path + observed(x)
        if left == 0:
            paths.append(path)
            return
        for a, y in out[x]:
            if a[0] in MUTATORS:
                if a[0] == "unlock":
                    paths.append(path + [a] + observed(y)) if left == 1 else None
                else:
                    extend(path + [a], y, left - 1)

    for a, y in out[inits[0]]:
        if a == ["lock"]:
            extend([a], y, nmut)
    if not paths:
        ctx.machinery("no session path in the state graph")
    return paths


def graph_paths(ctx, vfs, maxlen, max_len):
    # the invariants are checked on the Vfs=TRUE graph; the other one is a sub-graph of it
    cfg = model_cfg(vfs, maxlen, ctx.quick) if vfs else model_cfg(vfs, maxlen, ctx.quick, invariants=("StateOK",))
    nodes, edges, inits, res = tlc.graph(ctx, "BranchOpsMC", cfg_text=cfg, workers=1,
                                         label="MC + graph Vfs=%s MaxLen=%d" % (vfs, maxlen), timeout=1500)
    if not edges or len(inits) != 1:
        ctx.machinery("empty state graph")
    # TLC's node ids are fingerprints under a randomly chosen polynomial: name the nodes by their state instead, so that
    # the cover (and the seeded sample of it) is the same in every run
    canon = {nid: k for k, (nid, lab) in enumerate(sorted(nodes.items(), key=lambda kv: kv[1]))}
    edges = sorted({(canon[a], act, canon[b]) for a, act, b in edges})
    inits = [canon[x] for x in inits]
    paths = cover(nodes, edges, inits, ctx.rng, max_len)
    ctx.cov.setdefault("graphs", []).append({"vfs": vfs, "max_ops": maxlen, "nodes": len(nodes), "edges": len(edges),
                                             "cover_paths": len(paths)})
    return [[parse_action(e[1]) for e in p] for p in paths], edges, inits


def corrupted(rows):
    """Binding self-test rows: copies of a recorded row with (1) one value of the first bzr:// run changed - TLC must
    report that run as differing from the local one (and no drift: the local run is as specified) - and (2) the same
    stored-state field changed in every run - TLC must report drift from the specification but no local/remote
    difference."""
    import copy
    row = next((r for r in rows if len(r["acts"]) >= 3 and len(r["runs"]) >= 2
                and all(run[1] == r["runs"][0][1] for run in r["runs"])), None)
    if row is None:
        return []
    a, b = copy.deepcopy(row), copy.deepcopy(row)
    a["runs"][1][1][2][1] = a["runs"][1][1][2][1] + [7]
    for run in b["runs"]:
        run[1][1][2]["tip"] = 7
    return [(a, ["%s@3" % a["runs"][1][0]], False), (b, [], True)]


def judge(ctx, rows, test=()):
    """BranchOpsTrace: TLC compares every recorded run with the other runs of its row (the property) and the local run
    with BranchOps!Run (conformance).  `test`: self-test rows (corrupted()) appended to this TLC run, which it must
    reject as stated.  Returns [(row index, verdict)] for the rows TLC objects to."""
    extra = [t[0] for t in test]
    fin = os.path.join(ctx.workdir, "rows_%d_%d.json" % (os.getpid(), int(time.time() * 1e6)))
    with open(fin, "w") as f:
        json.dump([{"acts": r["acts"], "runs": r["runs"]} for r in list(rows) + extra], f)
    data, res = tlc.json_cases(ctx, "BranchOpsTrace", cfg_text="INIT Init\nNEXT Next\n", env={"VF_IN": fin},
                               label="BranchOpsTrace", workers=1, timeout=1500)
    os.unlink(fin)
    if data["n"] != len(rows) + len(extra):
        ctx.machinery("trace module consumed %s of %d rows" % (data["n"], len(rows) + len(extra)))
    verdicts = {b["row"]: b for b in data["bad"]}
    for j, (_, failed, drift) in enumerate(test):
        v = verdicts.pop(len(rows) + j + 1, {})
        if sorted(v.get("failed", [])) != failed or bool(v.get("drift")) != drift:
            ctx.machinery("binding self-test: TLC judged corrupted row %d as %s" % (j + 1, v))
    return [(k - 1, verdicts[k]) for k in sorted(verdicts)]


def setup(ctx):
    global FIX
    env.init()
    import breezy.tests  # noqa: F401  (BranchBuilder)
    from breezy import lockdir
    lockdir._DEFAULT_TIMEOUT_SECONDS = 0          # a contended lock_write fails at once (client and server side)
    os.environ.pop("BRZ_NO_SMART_VFS", None)
    FIX = Fixture(ctx)


def replay(ctx, rep):
    """./check C32 --replay FILE: run the recorded behaviour again on the local path and through the recorded mode."""
    setup(ctx)
    r = rep["replay"]
    acts = [list(a) for a in r["acts"]]
    replay_paths(ctx, [(acts, ["local", r["mode"]])])
    for k, a in enumerate(acts):
        rows = ctx.cov["_collect"][0]["runs"]
        print("%2d %-22s local %-40s %s %s" % (k + 1, a, rows[0][1][k][:2], r["mode"], rows[1][1][k][:2]))


def judge_chunk(sub, chunk):
    """fork_map worker: one TLC run of BranchOpsTrace per chunk of rows (the TLC starts run side by side)."""
    for rows, test in chunk:
        sub.cov.setdefault("_collect", []).append({"bad": judge(sub, rows, test), "rows": [r["path_id"] for r in rows]})


def run(ctx):
    setup(ctx)
    maxlen = 4 if ctx.quick else 5
    # design check + anti-vacuity in one small TLC run (-continue): every invariant of the model holds (the costly ones
    # are only checked here), every witness invariant is violated.  TLC reports the FIRST violated invariant of a state.
    design = ("GraphOK",) + INVARIANTS
    res = tlc.run(ctx, "BranchOpsMC", cfg_text=model_cfg(True, 2 if ctx.quick else 3, ctx.quick, invariants=design + WITNESSES),
                  workers=1, allow_violation=True, extra=("-continue",), timeout=900)
    broken = [i for i in design if "Invariant %s is violated" % i in res["output"]]
    if broken:
        ctx.machinery("the model itself violates %s" % broken)
    missing = [w for w in WITNESSES if "Invariant %s is violated" % w not in res["output"]]
    if missing:
        ctx.machinery("vacuity guard: TLC did not reach %s" % missing)
    ctx.add_tlc(res, "design + witnesses " + " ".join(WITNESSES))
    # the operations BranchOps!VfsOps declares VFS-only: what a server without VFS verbs answers to them (informational;
    # one that works there could move out of VfsOps)
    obs = {}
    for a in (["commit"], ["pull", "A", 0], ["pushout"]):
        obs[a[0]] = replay_run(FIX, [a], "novfs")[0][0][0]
        if obs[a[0]] == "":
            ctx.drift("%s works without VFS verbs but BranchOps!VfsOps lists it" % a[0], {"op": a})
    ctx.cov["vfs_only_ops_without_vfs"] = obs
    full, edges, inits = graph_paths(ctx, True, maxlen, 16)
    jobs = []
    # (1) SESSIONS: one object kept write-locked across its calls, every observer after every call - all of them for
    #     two state-changing calls under the lock; thorough adds a seeded sample of those with three
    sessions = session_paths(ctx, edges, inits, 2)
    ctx.cov["session_paths"] = len(sessions)
    jobs += [(p, ["local", "vfs"]) for p in sessions]
    if not ctx.quick:
        longer = session_paths(ctx, edges, inits, 3)
        ctx.cov["session_paths_3"] = len(longer)
        jobs += [(p, ["local", "vfs"]) for p in ctx.rng.sample(longer, min(600, len(longer)))]
    # (2) a seeded sample of the edge cover; a path without VFS-only operations also runs against a server without VFS
    #     verbs; thorough also covers the graph of the model without those operations
    budget = 150 if ctx.quick else 3000
    plans = [(full, ["local", "vfs"], 1.0)]
    ncover = len(full)
    if not ctx.quick:
        nov = graph_paths(ctx, False, maxlen, 16)[0]
        plans = [(full, ["local", "vfs"], 0.6), (nov, ["local", "vfs", "novfs"], 0.4)]
        ncover += len(nov)
    nsampled = 0
    for paths, modes, share in plans:
        k = min(len(paths), int(budget * share))
        nsampled += k
        for p in (ctx.rng.sample(paths, k) if k < len(paths) else paths):
            m = list(modes)
            if "novfs" not in m and not any(a[0] in VFS_OPS for a in p):
                m.append("novfs")
            jobs.append((p, m))
    # (3) the shortest behaviours of the graph that show the known defects, one per input class - so that every run of
    #     the check exercises them, whatever the sample
    for p in KNOWN_DEFECT_PATHS:
        jobs.append(([list(a) for a in p], ["local", "vfs"]))
    if not ctx.quick:
        # cross-check of the in-process medium: some behaviours also through a real SmartTCPServer on loopback
        for j in range(len(jobs) - 1, max(len(jobs) - 1 - TCP_PATHS, -1), -1):
            jobs[j] = (jobs[j][0], jobs[j][1] + ["tcp"])
        ctx.cov["tcp_paths"] = min(TCP_PATHS, len(jobs))
    # heavy paths first, so that the parallel replay ends evenly
    jobs.sort(key=lambda j: -len(j[0]) * len(j[1]))
    ctx.cov["replayed_paths"] = len(jobs)
    ctx.cov["exhaustive"] = nsampled >= ncover
    core.fork_map(ctx, replay_paths, jobs, chunks_per_proc=8)
    rows = ctx.collected
    ctx.collected = []
    ctx.cov["smart_requests"] = sum(r["requests"] for r in rows)
    if len(rows) != len(jobs):
        ctx.machinery("%d of %d behaviours recorded" % (len(rows), len(jobs)))
    if not any(m == "novfs" for r in rows for m, _ in r["runs"]):
        ctx.machinery("no behaviour was replayed against a server without VFS verbs")
    pyfail = {(v[2]["mode"], v[2]["first"], v[2]["path"]) for v in ctx.violations}
    tlcfail = set()
    # TLC judges the recorded runs, a chunk of rows per TLC start, the starts side by side; the last chunk carries the
    # binding self-test
    for k, r in enumerate(rows):
        r["path_id"] = k
    test = corrupted(rows)
    if not test and not ctx.violations:
        ctx.machinery("no recorded row is long enough for the binding self-test")
    size = max(40, -(-len(rows) // min(16, core.max_workers())))
    parts = [rows[i:i + size] for i in range(0, len(rows), size)]
    core.fork_map(ctx, judge_chunk, [(part, test if i == len(parts) - 1 else []) for i, part in enumerate(parts)],
                  chunks_per_proc=len(parts))
    judged = 0
    for c in ctx.collected:
        judged += len(c["rows"])
        for idx, b in c["bad"]:
            row = rows[c["rows"][idx]]
            acts = row["acts"]
            runs = dict(row["runs"])
            for f in b.get("failed", []):
                mode, k = f.split("@")
                tlcfail.add((mode, int(k), json.dumps(acts)))
            if b.get("drift"):
                k, mode = b["at"], b["mode"]
                got = runs[mode][k - 1] if k - 1 < len(runs[mode]) else None
                ctx.drift("%s run, step %d %s: recorded %s, specified %s" % (mode, k, acts[k - 1], got, b.get("want")),
                          {"acts": acts[:k], "mode": mode, "step": k})
    if judged != len(rows):
        ctx.machinery("TLC judged %d of %d behaviours" % (judged, len(rows)))
    # the signatures come from replay_paths' comparison of the same records; TLC's verdict must be the same verdict
    if pyfail != tlcfail:
        ctx.machinery("harness and TLC disagree on the local/remote differences: %s vs %s" % (
            sorted(pyfail - tlcfail)[:3], sorted(tlcfail - pyfail)[:3]))
    ctx.assume("reads are made under lock_read (an unlocked local Repository.get_parent_map raises ObjectNotLocked, a "
               "RemoteRepository answers)")
    ctx.assume("generate_revision_history(absent revision): local GhostRevisionsHaveNoRevno == the verb's NoSuchRevision")
    ctx.assume("operations that RemoteBranch implements through _ensure_real (memory-tree commit, pull INTO the branch, "
               "push OUT of it) are exercised with VFS verbs enabled only; everything else also with BRZ_NO_SMART_VFS")
    ctx.rule("paths of TLC's state graph of BranchOpsMC (every edge = one client operation in one abstract world), each "
             "replayed on the local path and through bzr:// (and against a server without VFS verbs when it has no "
             "VFS-only operation): (1) ALL sessions lock_write . observers . op . observers . op . observers (%d)%s; "
             "(2) %s of the edge cover; (3) the %d shortest paths that show the known defects; non-trivial = at least 2 "
             "state-changing operations; distinct = operation sequence"
             % (len(sessions), "" if ctx.quick else " and a seeded sample of 600 with three operations",
                "all" if ctx.cov["exhaustive"] else "a seeded sample of %d" % nsampled, len(KNOWN_DEFECT_PATHS)))
