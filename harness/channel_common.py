"""Shared binding code of the HistoryChannel family (C35 git export / round trip, C44 fast-export / fast-import).

The bounded universe of histories comes from TLC (specs/HistoryChannelGen.tla: exhaustive for small constants with
the in-spec laws as invariants, -simulate for the larger constants).  An abstract history is
    {"P": [[parents]...], "T": [[{"p": [names], "k": kind, "c": content index, "x": bool, "o": object id}...]...],
     "M": [{"msg", "who", "ts", "tz"}...], "tags": [{"name", "rev"}...], "tip": n}
with revisions numbered 1..n in creation order.  It is materialised here as a real 2a branch (CommitBuilder
record_iter_changes: exact file ids, renames, kind changes, executable bits, symlinks, empty directories, merges, several
roots), real repositories are projected back to the same vocabulary, and specs/HistoryChannelTrace.tla judges.
"""
import glob
import hashlib
import io
import json
import os
import re
import shutil
import time

from vf import tlaval, tlc
from vf import table as vtable

# ----------------------------------------------------------------------------- concretisation tables
# abstract name -> real name (a non-ASCII name, names with a space); every fourth history uses a one-character
# name for "a" as well (set_names)
NAME_VARIANTS = ({"a": "ab", "bb": "b\u00e9", "dd": "dd", "ee": "e e", "x": "x", "yy": "y y"},
                 {"a": "a", "bb": "b\u00e9", "dd": "dd", "ee": "e e", "x": "x", "yy": "y y"})
NAMES = dict(NAME_VARIANTS[0])
_INV_NAMES = {v: k for k, v in NAMES.items()}


def names_of(idx):
    return 1 if idx % 4 == 3 else 0


def set_names(variant):
    """Choose the concretisation of names (0: all names longer than one character, 1: "a" is one character long);
    workers handle one history at a time."""
    NAMES.clear()
    NAMES.update(NAME_VARIANTS[variant])
    _INV_NAMES.clear()
    _INV_NAMES.update({v: k for k, v in NAMES.items()})


# content index -> file text; 4 is also the text of link target 1 (same git blob for a file and a symlink)
FILE_TEXT = {1: b"one\n", 2: b"two\nlines\n", 3: b"", 4: b"a"}
LINK_TARGET = {1: "a", 2: "dd/x", 3: "../up", 4: "e e"}
MSGS = ["message zero", "two\nlines\n", "", "unicode \u00e9 \u4e16 message"]
WHOS = ["C <c@e.com>", "Dee Dee <d@e.com>", "nomail", "\u00c9ric <e@e.com>"]
TS0, TS_STEP = 1000000000, 86400
TZS = [0, 3600, -12600, 19800]
ROOT_ID = b"root-id"

_INV_TEXT = {hashlib.sha1(v).hexdigest(): k for k, v in FILE_TEXT.items()}
_INV_TARGET = {v: k for k, v in LINK_TARGET.items()}
UNKNOWN = -1


def revid(r):
    return b"rev-%d" % r


def real_path(p):
    return "/".join(NAMES[n] for n in p)


def abs_path(path):
    return [_INV_NAMES.get(n, "?" + n) for n in path.split("/")]


def _idx(table, v):
    try:
        return table.index(v)
    except ValueError:
        return UNKNOWN


# ----------------------------------------------------------------------------- TLC: the universe of histories
BASE = dict(TopNames='{"a", "dd"}', DirNames='{"dd"}', ChildNames='{"x"}', SubDirs="TRUE", NContents=1, MinRevs=1,
            MaxRevs=2, MaxEdits=2, MaxParents=2, NMsg=1, NWho=1, NTs=1, NTz=1, MetaChoices=1, TagNames='{"t1"}',
            Pointless="FALSE", NewRoots="TRUE", SampleEvery=1, PrefillDirs="{}")
INVARIANTS = ("GenWF", "DropEmptyDirsLaws", "ProjectionIdFree", "LawsHoldOnSpec")


def consts(**kw):
    c = dict(BASE)
    c.update(kw)
    return c


TREES = consts(TagNames="{}")                                          # tree-edit richness, <= 2 revisions (quick: no tags)
GRAPH = consts(TopNames='{"a"}', DirNames="{}", ChildNames="{}", SubDirs="FALSE", MaxRevs=3, MaxEdits=1,
               TagNames="{}")                                          # every graph <= 3 revisions (merges, roots)
TREES_T = consts(NContents=2)                                          # thorough: two contents / link targets
GRAPH_T = consts(TopNames='{"a", "bb"}', DirNames="{}", ChildNames="{}", SubDirs="FALSE", MaxRevs=4, MaxEdits=1,
                 TagNames="{}", NewRoots="FALSE")                      # thorough: every one-root graph <= 4 revisions
SMALL = consts(TopNames='{"a", "bb", "dd"}', DirNames='{"dd"}', ChildNames='{"x"}', NContents=2, MaxRevs=3, MinRevs=2,
               MaxEdits=2, NMsg=2, NWho=2, NTz=2, MetaChoices=2)
DIRS = consts(TopNames='{"a", "dd", "ee"}', DirNames='{"dd", "ee"}', ChildNames='{"x", "yy"}', SubDirs="FALSE", MinRevs=2,
              MaxRevs=3, MaxEdits=3, TagNames="{}", NewRoots="FALSE")    # two directories with two places each and one
#                                                 top-level name: moves between, out of and into directories are frequent
LARGE = consts(TopNames='{"a", "bb", "dd", "ee"}', DirNames='{"dd", "ee"}', ChildNames='{"x", "yy"}', NContents=4,
               MinRevs=2, MaxEdits=3, NMsg=4, NWho=4, NTs=3, NTz=4, MetaChoices=3, TagNames='{"t1", "t2"}', Pointless="TRUE")

_last_state = re.compile(r"STATE_(\d+) ==\s*\n(.*?)(?=^\\\* |\Z|^={4,})", re.M | re.S)


def simulate_histories(ctx, constants, num, depth, seed, label, invariants=INVARIANTS):
    """Random walks of HistoryChannelGen; the final state of every finished walk is a history."""
    res = tlc.run(ctx, "HistoryChannelGen", mode="simulate", cfg_text=vtable.cfg(constants, invariants), num=num,
                  depth=depth, seed=seed, simfile=True, workers=1, timeout=1500)
    if res.get("violated"):
        ctx.machinery("simulation of HistoryChannelGen violates %s:\n%s" % (res["violated"], res["output"][-2000:]))
    out = []
    for f in sorted(glob.glob(os.path.join(res["simdir"], "tr*"))):
        with open(f) as fp:
            txt = fp.read()
        ms = list(_last_state.finditer(txt))
        if not ms:
            continue
        st = tlaval.parse_state(ms[-1].group(2))
        if st.get("done") is True:
            out.append(history_from_tla(st["h"]))
    shutil.rmtree(res["simdir"], ignore_errors=True)
    m = re.search(r"number of states generated: (\d+)", res["output"])
    if m:
        res["generated"] = int(m.group(1))                     # states visited by the walks (not folded as distinct)
    ctx.add_tlc(res, label)
    return out


def witness_by_simulation(ctx, constants, witness, seed):
    """Anti-vacuity: a random walk must reach the witnessed class of histories (TLC reports the invariant violated)."""
    res = tlc.run(ctx, "HistoryChannelGen", mode="simulate", cfg_text=vtable.cfg(constants, (witness,)), num=4000,
                  depth=40, seed=seed, workers=1, allow_violation=True, timeout=600)
    if res.get("violated") != witness:
        ctx.machinery("vacuity guard: no walk of HistoryChannelGen reaches %s" % witness)
    ctx.add_tlc(res, "witness " + witness)


def history_from_tla(h):
    h = tlaval.to_py(h)
    return {"P": [list(ps) for ps in h["P"]],
            "T": [sorted(({"p": list(e["p"]), "k": e["k"], "c": e["c"], "x": bool(e["x"]), "o": e["o"]} for e in t),
                         key=lambda e: e["p"]) for t in h["T"]],
            "M": [dict(m) for m in h["M"]],
            "tags": sorted(({"name": g["name"], "rev": g["rev"]} for g in h["tags"]), key=lambda g: g["name"]),
            "tip": h["tip"]}


def hkey(h):
    return json.dumps(h, sort_keys=True)


def universe(ctx, nsmall, nlarge, max_revs):
    """E1 (exhaustive in-spec laws) + E2 (histories to replay).  Returns the list of distinct histories."""
    q = ctx.quick
    for name, c in (("trees", TREES if q else TREES_T), ("graph", GRAPH if q else GRAPH_T)):
        res = tlc.check(ctx, "HistoryChannelGen", cfg_text=vtable.cfg(c, INVARIANTS), label="exhaustive " + name, timeout=3000)
        full = c["MaxRevs"] * (c["MaxEdits"] + 1) + 2          # a complete session with every edit used, + Finish
        if res.get("depth") != full:
            ctx.machinery("exhaustive %s: state graph depth %s, complete sessions need %d" % (name, res.get("depth"), full))
    # anti-vacuity of the antecedents in LawsHoldOnSpec: finished histories with an empty directory, an executable
    # file and a tag; with a merge of two different trees (the other classes are checked on the replayed histories)
    tlc.check(ctx, "HistoryChannelGen", cfg_text=vtable.cfg(TREES_T, ("WitnessEmptyDir",)), expect_violation="WitnessEmptyDir",
              label="witness WitnessEmptyDir")
    witness_by_simulation(ctx, dict(GRAPH, MinRevs=3), "WitnessAsymMerge", ctx.seed * 100 + 1)
    hs = simulate_histories(ctx, SMALL, nsmall, 30, ctx.seed * 10 + 1, "simulate small")
    hs += simulate_histories(ctx, DIRS, max(12, nsmall // 2), 30, ctx.seed * 10 + 9, "simulate directories")
    # (revisions, parents per merge, several roots, share); histories with several roots are kept to a small share
    runs = [(max_revs, 2, "FALSE", 0.8), (3, 2, "TRUE", 0.2)] if q else \
        [(max_revs, 2, "FALSE", 0.5), (max_revs, 3, "FALSE", 0.3), (4, 2, "TRUE", 0.2)]
    for k, (mr, mp, nr, share) in enumerate(runs):
        hs += simulate_histories(ctx, dict(LARGE, MaxRevs=mr, MinRevs=min(mr, 3), MaxParents=mp, NewRoots=nr),
                                 int(nlarge * share) + 1, 45, ctx.seed * 10 + 2 + k,
                                 "simulate large, <= %d revisions, <= %d parents, roots %s" % (mr, mp, nr))
    seen, out = set(), []
    for h in hs:
        k = hkey(h)
        if k not in seen:
            seen.add(k)
            out.append(h)
    if not out:
        ctx.machinery("the generator produced no history")
    return out


POOL_INVARIANTS = ("GenWF", "DropEmptyDirsLaws", "SampledLaws")


def universe_stratified(ctx, required, npool_large, npool_dirs, per_stratum, quota, max_revs, sample=4):
    """E1 + E2 with a STRATIFIED sample.  Rare situations (a move out of a populated directory, a merge whose parents
    arrive in different rounds, ...) hardly occur among a hundred random walks, so: TLC produces a large pool of cheap
    walks (only the generator's own invariants; the in-spec laws are checked exhaustively on the small universes and on
    every `sample`-th finished walk of the pools), every history of the pool is classified (features / situations), and the
    replayed sample takes up to `per_stratum` histories of EVERY class (seeded), then random ones up to `quota`.
    A class of `required` without a history in the sample is a machinery failure, never a silent gap."""
    import random
    q = ctx.quick
    for name, c in (("trees", TREES if q else TREES_T), ("graph", GRAPH if q else GRAPH_T)):
        res = tlc.check(ctx, "HistoryChannelGen", cfg_text=vtable.cfg(c, INVARIANTS), label="exhaustive " + name, timeout=3000)
        full = c["MaxRevs"] * (c["MaxEdits"] + 1) + 2
        if res.get("depth") != full:
            ctx.machinery("exhaustive %s: state graph depth %s, complete sessions need %d" % (name, res.get("depth"), full))
    if not q:                                                  # antecedents of LawsHoldOnSpec (fixed configs: thorough only)
        tlc.check(ctx, "HistoryChannelGen", cfg_text=vtable.cfg(TREES_T, ("WitnessEmptyDir",)),
                  expect_violation="WitnessEmptyDir", label="witness WitnessEmptyDir")
        witness_by_simulation(ctx, dict(GRAPH, MinRevs=3), "WitnessAsymMerge", ctx.seed * 100 + 1)
    # pools of cheap random walks; the expensive in-spec laws are checked on every `sample`-th finished history of them
    pool = []
    for k, (c, num, label) in enumerate((
            (dict(LARGE, MaxRevs=max_revs, MinRevs=2, NewRoots="TRUE", MaxParents=2 if q else 3), npool_large, "pool large"),
            (dict(DIRS, MaxRevs=3 if q else 4, PrefillDirs='{"dd"}'), npool_dirs, "pool directories"))):
        pool += simulate_histories(ctx, dict(c, SampleEvery=sample), num, 45, ctx.seed * 10 + 2 + k, label,
                                   invariants=POOL_INVARIANTS)
    seen, uniq = set(), []
    for h in pool:
        k = hkey(h)
        if k not in seen:
            seen.add(k)
            uniq.append(h)
    rng = random.Random(ctx.seed)
    classes = {}
    for i, h in enumerate(uniq):
        for c in features(h):
            classes.setdefault(c, []).append(i)
    chosen = set()
    for c in sorted(classes):
        chosen |= set(rng.sample(classes[c], min(per_stratum, len(classes[c]))))
    rest = [i for i in range(len(uniq)) if i not in chosen]
    rng.shuffle(rest)
    chosen |= set(rest[:max(0, quota - len(chosen))])
    out = [uniq[i] for i in sorted(chosen)]
    have = set()
    for h in out:
        have |= features(h)
    missing = [c for c in required if c not in have]
    if missing:
        ctx.machinery("no history of the classes %s among %d generated ones" % (missing, len(uniq)))
    ctx.cov["pool"] = {"generated": len(uniq), "replayed": len(out),
                       "classes_in_pool": {c: len(v) for c, v in sorted(classes.items())}}
    return out


# ----------------------------------------------------------------------------- classification of histories
def features(h):
    """The classes of a history the coverage rule talks about."""
    f = set()
    n = len(h["P"])
    if any(len(ps) > 1 for ps in h["P"]):
        f.add("merge")
    if sum(1 for ps in h["P"] if not ps) > 1:
        f.add("roots")
    for r in range(1, n + 1):
        t = h["T"][r - 1]
        paths = {tuple(e["p"]) for e in t}
        for e in t:
            if e["k"] == "directory" and not any(p[:len(e["p"])] == tuple(e["p"]) and len(p) > len(e["p"]) for p in paths):
                f.add("emptydir")
            if e["k"] == "symlink":
                f.add("symlink")
            if e["x"]:
                f.add("exec")
        if h["P"][r - 1]:
            base = {e["o"]: e for e in h["T"][h["P"][r - 1][0] - 1]}
            for e in t:
                b = base.get(e["o"])
                if b is None:
                    continue
                if b["p"] != e["p"]:
                    f.add("rename")
                    if e["k"] == "directory":
                        f.add("dirrename")
                if b["k"] != e["k"]:
                    f.add("kindchange")
                if b["x"] != e["x"]:
                    f.add("chmod")
            if {e["o"] for e in t} < set(base):
                f.add("delete")
            if sorted(t, key=lambda e: e["o"]) == sorted(base.values(), key=lambda e: e["o"]):
                f.add("pointless")
    if h["tags"]:
        f.add("tags")
    return f | situations(h)


def _ancestry(P, r):
    out, todo = set(), [r]
    while todo:
        x = todo.pop()
        if x not in out:
            out.add(x)
            todo.extend(P[x - 1])
    return out


def situations(h):
    """Rarer classes of situations the sample of replayed histories is stratified by (see universe()):
      moveout       a revision moves an entry out of a directory that keeps another entry and is otherwise untouched
      movein        ... into a directory that already held another entry and is otherwise untouched
      diremptied    a directory loses all its content (deleted or moved away) but stays
      dirrename-loses-entry / -gains-entry   a directory is renamed and, in the same revision, an entry leaves / joins it
      swap          two objects exchange their paths
      tipmerge-left / -right   the tip is a merge of parents neither of which descends from the other, and keeps an
                    entry of its first (last) parent that the other parent does not have in that form -- transferred in
                    two rounds, one parent is already there when the merge arrives
      midmerge      the same for a merge below the tip
    """
    f = set()
    n = len(h["P"])
    for r in range(1, n + 1):
        ps = h["P"][r - 1]
        if not ps:
            continue
        t = h["T"][r - 1]
        b = h["T"][ps[0] - 1]
        bo = {e["o"]: e for e in b}
        co = {e["o"]: e for e in t}

        def inside(tree, d):
            return sorted((e["o"], tuple(e["p"]), e["k"], e["c"], e["x"]) for e in tree if tuple(e["p"][:-1]) == d)
        for o, e in co.items():
            pe = bo.get(o)
            if pe is None or pe["p"] == e["p"]:
                continue
            src, dst = tuple(pe["p"][:-1]), tuple(e["p"][:-1])
            if src != dst and src and any(x["o"] == bo_d["o"] for x in t for bo_d in b if tuple(bo_d["p"]) == src and tuple(x["p"]) == src):
                rest_before = [x for x in inside(b, src) if x[0] != o]
                if rest_before and rest_before == inside(t, src) and any(x[2] != "directory" for x in rest_before):
                    f.add("moveout")
            if src != dst and dst:
                rest_after = [x for x in inside(t, dst) if x[0] != o]
                if rest_after and rest_after == inside(b, dst):
                    f.add("movein")
            other = next((x for x in t if x["o"] != o and tuple(x["p"]) == tuple(pe["p"]) and x["o"] in bo
                          and tuple(bo[x["o"]]["p"]) == tuple(e["p"])), None)
            if other is not None:
                f.add("swap")
        for e in t:
            if e["k"] == "directory" and e["o"] in bo and bo[e["o"]]["k"] == "directory":
                if inside(b, tuple(bo[e["o"]]["p"])) and not inside(t, tuple(e["p"])):
                    f.add("diremptied")
                if bo[e["o"]]["p"] != e["p"]:                  # renamed directory: does an entry leave / join / change in it?
                    was = {x[0] for x in inside(b, tuple(bo[e["o"]]["p"]))}
                    now = {x[0] for x in inside(t, tuple(e["p"]))}
                    if was - now:
                        f.add("dirrename-loses-entry")
                    if now - was:
                        f.add("dirrename-gains-entry")
        if len(ps) > 1:
            p1, p2 = ps[0], ps[-1]
            if p2 not in _ancestry(h["P"], p1) and p1 not in _ancestry(h["P"], p2):
                c1, c2, cm = set(carried(h["T"][p1 - 1])), set(carried(h["T"][p2 - 1])), set(carried(t))
                where = "tipmerge" if r == h["tip"] else "midmerge"
                if (c1 & cm) - c2:
                    f.add(where + ("-left" if where == "tipmerge" else ""))
                if (c2 & cm) - c1 and where == "tipmerge":
                    f.add("tipmerge-right")
    return f


def edit_classes(h, r):
    """What revision r does relative to its left-hand parent (for violation signatures)."""
    t = h["T"][r - 1]
    ps = h["P"][r - 1]
    f = set()
    if len(ps) > 1:
        f.add("merge")
    if not ps:
        f.add("root")
        return f
    base = {e["o"]: e for e in h["T"][ps[0] - 1]}
    cur = {e["o"]: e for e in t}
    for o, e in cur.items():
        b = base.get(o)
        if b is None:
            f.add("add-" + e["k"])
        else:
            if b["p"] != e["p"]:
                f.add("rename-" + e["k"])
            if b["k"] != e["k"]:
                f.add("kind")
            elif b["c"] != e["c"]:
                f.add("modify")
            if b["x"] != e["x"]:
                f.add("chmod")
    for o, b in base.items():
        if o not in cur:
            f.add("delete-" + b["k"])
    return f


# ----------------------------------------------------------------------------- materialise
def preload():
    """Import what the fixtures need in the parent, so that forked workers inherit it."""
    import breezy.bzr.inventorytree  # noqa: F401
    import breezy.git.object_store  # noqa: F401
    import breezy.git.interrepo  # noqa: F401
    import breezy.git.fetch  # noqa: F401
    import breezy.git.dir  # noqa: F401
    import breezy.git.branch  # noqa: F401
    import dulwich.repo  # noqa: F401


def quiet():
    """push / fetch / exporter / importer report progress and 'slow' warnings through the brz logger."""
    import logging
    logging.getLogger("brz").setLevel(logging.ERROR)


def real_tree(t):
    """abstract tree -> {path: (kind, bytes | target | None, exec, file id)}"""
    out = {}
    for e in t:
        p = real_path(e["p"])
        if e["k"] == "file":
            out[p] = ("file", FILE_TEXT[e["c"]], bool(e["x"]), b"o%d" % e["o"])
        elif e["k"] == "symlink":
            out[p] = ("symlink", LINK_TARGET[e["c"]], False, b"o%d" % e["o"])
        else:
            out[p] = ("directory", None, False, b"o%d" % e["o"])
    return out


def real_meta(m):
    return dict(message=MSGS[m["msg"]], committer=WHOS[m["who"]], timestamp=TS0 + TS_STEP * m["ts"], timezone=TZS[m["tz"]])


class _ATree:
    """The little of the Tree interface CommitBuilder.record_iter_changes reads."""

    def __init__(self, tree):
        self.t = tree
        self.by_id = {v[3]: p for p, v in tree.items()}
        self.by_id[ROOT_ID] = ""

    def id2path(self, fid, recurse="down"):
        return self.by_id[fid]

    def get_file_with_stat(self, path):
        return io.BytesIO(self.t[path][1]), None

    def get_symlink_target(self, path):
        return self.t[path][1]


def _entries(tree):
    out = {}
    for p, (k, c, x, fid) in tree.items():
        d = os.path.dirname(p)
        out[fid] = (p, tree[d][3] if d else ROOT_ID, os.path.basename(p), k, c, bool(x) if k == "file" else False)
    return out


def _changes(old, new, new_root):
    from breezy.bzr.inventorytree import InventoryTreeChange
    eo, en = _entries(old), _entries(new)
    out = []
    if new_root:
        out.append(InventoryTreeChange(ROOT_ID, (None, ""), True, (False, True), (None, None), (None, ""),
                                       (None, "directory"), (None, False)))
    for fid in sorted(set(eo) | set(en)):
        o, n = eo.get(fid), en.get(fid)
        if o == n:
            continue

        def g(e, i):
            return e[i] if e is not None else None
        cc = o is None or n is None or o[3] != n[3] or (n[3] != "directory" and o[4] != n[4])
        out.append(InventoryTreeChange(fid, (g(o, 0), g(n, 0)), cc, (o is not None, n is not None), (g(o, 1), g(n, 1)),
                                       (g(o, 2), g(n, 2)), (g(o, 3), g(n, 3)), (g(o, 5), g(n, 5))))
    return out


def memory_url():
    from dromedary import memory
    srv = memory.MemoryServer()
    srv.start_server()
    return srv.get_url()


def new_branch(url, fmt="2a"):
    from breezy import controldir
    f = controldir.format_registry.make_controldir(fmt)
    return controldir.ControlDir.create_branch_convenience(url, format=f, force_new_tree=False)


def materialise(ctx, h, url=None, props=None):
    """Abstract history -> real 2a branch (tip = h.tip, tags set).  Binding self-check: what was built is what was
    asked for (graph, every tree with its file ids, metadata), else machinery failure."""
    from breezy import revision as _r
    b = new_branch(url or (memory_url() + "src"))
    repo = b.repository
    trees = [real_tree(t) for t in h["T"]]
    with b.lock_write():
        for r, ps in enumerate(h["P"], 1):
            pids = [revid(p) for p in ps]
            basis = trees[ps[0] - 1] if ps else {}
            m = real_meta(h["M"][r - 1])
            builder = repo.get_commit_builder(b, pids, b.get_config_stack(), timestamp=m["timestamp"],
                                              timezone=m["timezone"], committer=m["committer"], revprops=dict(props or {}),
                                              revision_id=revid(r))
            try:
                list(builder.record_iter_changes(_ATree(trees[r - 1]), pids[0] if pids else _r.NULL_REVISION,
                                                 _changes(basis, trees[r - 1], not ps)))
                builder.finish_inventory()
                builder.commit(m["message"])
            except BaseException:
                builder.abort()
                raise
        b.generate_revision_history(revid(h["tip"]))
        for g in h["tags"]:
            b.tags.set_tag(g["name"], revid(g["rev"]))
    with repo.lock_read():
        for r in range(1, len(h["P"]) + 1):
            got = {}
            tree = repo.revision_tree(revid(r))
            for path, ie in tree.iter_entries_by_dir():
                if path == "":
                    continue
                if ie.kind == "file":
                    got[path] = ("file", tree.get_file_text(path), bool(ie.executable), ie.file_id)
                elif ie.kind == "symlink":
                    got[path] = ("symlink", ie.symlink_target, False, ie.file_id)
                else:
                    got[path] = ("directory", None, False, ie.file_id)
            rev = repo.get_revision(revid(r))
            m = real_meta(h["M"][r - 1])
            if got != trees[r - 1] or [revid(p) for p in h["P"][r - 1]] != list(rev.parent_ids) or \
                    (rev.message, rev.committer, rev.timestamp, rev.timezone) != (
                        m["message"], m["committer"], float(m["timestamp"]), m["timezone"]):
                ctx.machinery("fixture: revision %d of %s was built as %r / %r" % (r, hkey(h), got, rev))
    return b


# ----------------------------------------------------------------------------- projection of real repositories
def obs_tree(tree):
    """Any breezy Tree -> [{p, k, c, x}] in the abstract vocabulary (unknown values become UNKNOWN / '?name')."""
    out = []
    with tree.lock_read():
        for path, ie in tree.iter_entries_by_dir():
            if path == "":
                continue
            if ie.kind == "file":
                c = _INV_TEXT.get(hashlib.sha1(tree.get_file_text(path)).hexdigest(), UNKNOWN)
                x = bool(tree.is_executable(path))
            elif ie.kind == "symlink":
                c, x = _INV_TARGET.get(tree.get_symlink_target(path), UNKNOWN), False
            elif ie.kind == "directory":
                c, x = 0, False
            else:
                c, x = UNKNOWN, False
            out.append({"p": abs_path(path), "k": ie.kind, "c": c, "x": x})
    return sorted(out, key=lambda e: e["p"])


def obs_meta(rev):
    ts = rev.timestamp
    tsi = (int(ts) - TS0) // TS_STEP if float(ts) == int(ts) and (int(ts) - TS0) % TS_STEP == 0 else UNKNOWN
    return {"msg": _idx(MSGS, rev.message), "who": _idx(WHOS, rev.committer), "ts": tsi, "tz": _idx(TZS, rev.timezone)}


def observe(repo, tip, tags):
    """History record of the ancestry of tip in a real repository; revisions numbered in a topological order."""
    with repo.lock_read():
        g = repo.get_graph()
        pm = {r: ps for r, ps in g.iter_ancestry([tip]) if ps is not None and r != b"null:"}
        order = list(g.iter_topo_order(pm))
        num = {r: i for i, r in enumerate(order, 1)}
        P = [[num[p] for p in pm[r] if p in num] for r in order]
        T = [obs_tree(repo.revision_tree(r)) for r in order]
        revs = [repo.get_revision(r) for r in order]
        M = [obs_meta(rv) for rv in revs]
        raw = [{"id": r.decode("utf-8", "replace"), "message": rv.message, "committer": rv.committer,
                "timestamp": rv.timestamp, "timezone": rv.timezone} for r, rv in zip(order, revs)]
        nrevs = len(repo.all_revision_ids())
    tg = sorted(({"name": n, "rev": num.get(r, 0)} for n, r in tags.items()), key=lambda x: x["name"])
    return {"ok": True, "P": P, "T": T, "M": M, "tags": tg, "tip": num[tip], "nrevs": nrevs, "raw": raw}


def failure(e):
    import traceback
    tb = traceback.extract_tb(e.__traceback__)
    site = next((("%s:%s" % (os.path.basename(f.filename), f.name)) for f in reversed(tb)
                 if "/breezy/git/" in f.filename or "/plugins/fastimport/" in f.filename), None) or \
        next((("%s:%s" % (os.path.basename(f.filename), f.name)) for f in reversed(tb) if "/breezy/" in f.filename), "?")
    return {"ok": False, "exc": type(e).__name__, "site": site, "emsg": str(e)[:300],
            "tb": "".join(traceback.format_exception(type(e), e, e.__traceback__))[-3000:]}


def scratch_root():
    """tmpfs when there is one (on-disk repositories: git target, fast-import target), else the check's workdir."""
    if os.path.isdir("/dev/shm") and os.access("/dev/shm", os.W_OK):
        return "/dev/shm"
    return None


# ----------------------------------------------------------------------------- judge
def judge(ctx, rows, chunk=400):
    """rows -> [(row, failed clause names, drift names, notes)] for the rows TLC reports."""
    bad = []
    for off in range(0, len(rows), chunk):
        part = rows[off:off + chunk]
        fin = os.path.join(ctx.workdir, "rows_%d.json" % int(time.time() * 1e6))
        with open(fin, "w") as f:
            json.dump([lean(r) for r in part], f)
        data, _ = tlc.json_cases(ctx, "HistoryChannelTrace", cfg_text=vtable.cfg(None), env={"VF_IN": fin},
                                 label="HistoryChannelTrace", timeout=1500)
        os.unlink(fin)
        if data["n"] != len(part):
            ctx.machinery("trace module consumed %s of %d rows" % (data["n"], len(part)))
        for b in data["bad"]:
            bad.append((part[b["row"] - 1], list(b.get("failed", [])), list(b.get("drifts", [])), list(b.get("notes", []))))
        ctx.count(0, traces=len(part))
    return bad


# ----------------------------------------------------------------------------- diagnosis (signatures, descriptions)
def carried(t):
    """Python twin of HistoryChannel!Carried, for descriptions and signatures only (the verdict is TLC's)."""
    nd = [tuple(e["p"]) for e in t if e["k"] != "directory"]
    out = []
    for e in t:
        p = tuple(e["p"])
        if e["k"] != "directory" or any(q[:len(p)] == p and len(q) > len(p) for q in nd):
            out.append((p, e["k"], e["c"], bool(e["x"])))
    return sorted(out)


def _unfold_keys(P, labels):
    keys = []
    for r, ps in enumerate(P, 1):
        keys.append(json.dumps([labels[r - 1], [keys[p - 1] for p in ps]], sort_keys=True))
    return keys


def tree_differences(h, o):
    """Source revisions whose carried tree differs from the observed revision at the same position of the graph
    (positions related by the unfolding of the unlabelled graph and, when that is ambiguous, of the metadata).
    Returns [(r, missing, extra)] or None when positions cannot be related."""
    for lab in (lambda x, r: 0, lambda x, r: x["M"][r - 1]):
        hk = _unfold_keys(h["P"], [lab(h, r) for r in range(1, len(h["P"]) + 1)])
        ok = _unfold_keys(o["P"], [lab(o, r) for r in range(1, len(o["P"]) + 1)])
        if len(set(hk)) == len(hk) and sorted(hk) == sorted(ok):
            out = []
            for r, k in enumerate(hk, 1):
                want, got = set(carried(h["T"][r - 1])), set(carried(o["T"][ok.index(k)]))
                if want != got:
                    out.append((r, sorted(want - got), sorted(got - want)))
            return out
    return None


def tree_signature(h, o):
    d = tree_differences(h, o)
    if d is None:
        return "unrelated-positions", "revisions cannot be related by position"
    if not d:
        return "position-only", "trees equal revision by revision, but not as an unfolding"
    cls = set()
    for r, _, _ in d:
        cls |= edit_classes(h, r)
    r, missing, extra = d[0]
    return "+".join(sorted(cls)), "revision %d (%s): missing %s, unexpected %s" % (
        r, ",".join(sorted(edit_classes(h, r))), missing, extra)


def lean(row):
    """The part of a row TLC reads (diagnostics stay in python)."""
    def strip(x):
        if isinstance(x, dict):
            return {k: strip(v) for k, v in x.items() if k not in ("diag", "raw", "emsg", "exc", "site", "tb", "stage", "pyfail", "min", "min_runs", "cls") and v is not None}
        if isinstance(x, list):
            return [strip(v) for v in x]
        return x
    return strip(row)


# ----------------------------------------------------------------------------- minimisation of failing histories
# A violation's signature must name the narrowest input class.  Random histories mix many edits, so a failing history
# is first shrunk (delta debugging on the ABSTRACT history, re-running the real code with a python twin of the failed
# clause as predicate): smallest failing ancestry, collapsed to (left parent, revision) when that still fails, every
# edit that is not needed undone, every by-standing object removed, metadata flattened.  The signature is then read off
# the minimal history.  The verdict itself is never taken from the twin: TLC judged the original row.
def py_failed(h, o, meta=True, tags=True, count=True):
    """Python twin of the clause-wise laws, coarse: the kind of failure as a hashable value, or None.
    count=False: only the unfolding of the tip is compared (C35: two revisions with equal tree, parents and metadata
    are one git commit, and the id-free projection cannot and need not tell such twins apart)."""
    if not o.get("ok"):
        return "error:%s:%s@%s" % (o.get("stage", ""), o.get("exc"), o.get("site"))
    n = len(h["P"])
    if count and (o.get("nrevs") != n or len(o["P"]) != n or
                  sorted(_unfold_keys(h["P"], [0] * n)) != sorted(_unfold_keys(o["P"], [0] * len(o["P"])))):
        return "graph"
    if _unfold_keys(h["P"], [0] * n)[h["tip"] - 1] != _unfold_keys(o["P"], [0] * len(o["P"]))[o["tip"] - 1]:
        return "graph"
    hk = _unfold_keys(h["P"], [carried(t) for t in h["T"]])
    ok = _unfold_keys(o["P"], [carried(t) for t in o["T"]])
    if hk[h["tip"] - 1] != ok[o["tip"] - 1]:
        return "trees"
    if meta:
        for f in ("msg", "who", "ts", "tz"):
            if _unfold_keys(h["P"], [m[f] for m in h["M"]])[h["tip"] - 1] != \
                    _unfold_keys(o["P"], [m[f] for m in o["M"]])[o["tip"] - 1]:
                return "meta:" + f
    if tags:
        hf = _unfold_keys(h["P"], [[carried(t), m] for t, m in zip(h["T"], h["M"])])
        of = _unfold_keys(o["P"], [[carried(t), {k: m[k] for k in ("msg", "who", "ts", "tz")}] for t, m in zip(o["T"], o["M"])])
        if sorted((g["name"], hf[g["rev"] - 1]) for g in h["tags"]) != \
                sorted((g["name"], of[g["rev"] - 1]) for g in o["tags"] if g["rev"]) or \
                any(not g["rev"] for g in o["tags"]):
            return "tags"
    return None


def wf_tree(t):
    paths = [tuple(e["p"]) for e in t]
    objs = [e["o"] for e in t]
    if len(set(paths)) != len(paths) or len(set(objs)) != len(objs):
        return False
    kinds = {tuple(e["p"]): e["k"] for e in t}
    return all(len(p) == 1 or kinds.get(p[:-1]) == "directory" for p in paths)


def branch_part(h, tip, keep_tags=False):
    """Python twin of HistoryChannel!BranchPart with another tip."""
    anc, todo = set(), [tip]
    while todo:
        r = todo.pop()
        if r not in anc:
            anc.add(r)
            todo.extend(h["P"][r - 1])
    order = sorted(anc)
    num = {r: i for i, r in enumerate(order, 1)}
    return {"P": [[num[p] for p in h["P"][r - 1]] for r in order], "T": [h["T"][r - 1] for r in order],
            "M": [h["M"][r - 1] for r in order],
            "tags": [{"name": g["name"], "rev": num[g["rev"]]} for g in h["tags"] if keep_tags and g["rev"] in num],
            "tip": len(order)}


def _without(t, obj):
    """tree without object obj and everything below it"""
    e = next((e for e in t if e["o"] == obj), None)
    if e is None:
        return t
    p = e["p"]
    return [f for f in t if f["p"][:len(p)] != p]


def minimise(h, run, budget=120):
    """Shrink h while run(h) keeps returning the same failure kind.  Returns (minimal history, runs used)."""
    want = run(h)
    used = [1]
    if want is None:
        return h, 1

    def still(c):
        if used[0] >= budget or not all(wf_tree(t) for t in c["T"]):
            return False
        used[0] += 1
        return run(c) == want
    cur = h
    for k in range(1, len(h["P"]) + 1):                        # smallest failing ancestry (tags first without, then with)
        for kt in (False, True):
            c = branch_part(h, k, kt)
            if (k < len(h["P"]) or not kt) and still(c):
                cur = c
                break
        else:
            continue
        break
    n = len(cur["P"])
    if n > 2 and cur["P"][n - 1]:                              # (left parent, revision) alone
        left = cur["P"][n - 1][0]
        c = {"P": [[], [1]], "T": [cur["T"][left - 1], cur["T"][n - 1]], "M": [cur["M"][left - 1], cur["M"][n - 1]],
             "tags": [], "tip": 2}
        if still(c):
            cur = c
    if len(cur["P"][-1]) > 1:                                  # merge parents not needed?
        c = dict(cur, P=cur["P"][:-1] + [cur["P"][-1][:1]])
        c = branch_part(c, c["tip"], True)
        if still(c):
            cur = c
    progress = True
    while progress and used[0] < budget:
        progress = False
        n = len(cur["P"])
        tip_t = cur["T"][n - 1]
        base = cur["T"][cur["P"][n - 1][0] - 1] if cur["P"][n - 1] else []
        bo = {e["o"]: e for e in base}
        for obj in sorted({e["o"] for e in tip_t} | set(bo), reverse=True):
            cands = []
            if n == 2 and cur["P"] == [[], [1]]:               # a by-stander: gone from both trees
                cands.append(dict(cur, T=[_without(cur["T"][0], obj), _without(cur["T"][1], obj)]))
            e = next((e for e in tip_t if e["o"] == obj), None)
            if e != bo.get(obj):                               # an edit: undone in the last revision
                t2 = [f for f in tip_t if f["o"] != obj]
                if e is not None and e["k"] == "directory":
                    t2 = [f for f in t2 if f["p"][:len(e["p"])] != e["p"]]
                if obj in bo:
                    t2 = t2 + [bo[obj]]
                cands.append(dict(cur, T=cur["T"][:-1] + [sorted(t2, key=lambda f: f["p"])]))
                if e is not None and obj in bo:                # partly undone: one attribute at a time
                    for f in ("p", "k", "c", "x"):
                        if e[f] != bo[obj][f] and sum(e[g] != bo[obj][g] for g in ("p", "k", "c", "x")) > 1:
                            e2 = dict(e)
                            e2[f] = bo[obj][f]
                            if f == "k":
                                e2["c"], e2["x"] = bo[obj]["c"], bo[obj]["x"]
                            if e2["k"] != "file":
                                e2["x"] = False
                            if (e2["k"] == "directory") != (e2["c"] == 0):
                                continue
                            cands.append(dict(cur, T=cur["T"][:-1] + [sorted([g for g in tip_t if g["o"] != obj] + [e2],
                                                                             key=lambda g: g["p"])]))
            for c in cands:
                if c["T"] != cur["T"] and still(c):
                    cur, progress = c, True
                    break
            if progress:
                break
    # canonical edit: a plain content change of the object at its old path, when that fails in the same way
    n = len(cur["P"])
    if cur["P"][n - 1]:
        bo = {e["o"]: e for e in cur["T"][cur["P"][n - 1][0] - 1]}
        for e in list(cur["T"][n - 1]):
            b = bo.get(e["o"])
            if b is not None and b != e and b["k"] != "directory":
                e2 = dict(b, c=2 if b["c"] == 1 else 1)
                if e2 != e:
                    c = dict(cur, T=cur["T"][:-1] + [sorted([g for g in cur["T"][n - 1] if g["o"] != e["o"]] + [e2],
                                                            key=lambda g: g["p"])])
                    if still(c):
                        cur = c
    # canonical by-standing attributes: plain non-executable files with content 1 wherever the failure does not care
    for obj in sorted({e["o"] for t in cur["T"] for e in t}):
        for fields in (("k", "c", "x"), ("x",), ("c",)):
            def norm(e):
                if e["o"] != obj or e["k"] == "directory":
                    return e
                e2 = dict(e)
                if "k" in fields:
                    e2["k"] = "file"
                if "c" in fields:
                    e2["c"] = 1
                if "x" in fields or e2["k"] != "file":
                    e2["x"] = False
                return e2
            c = dict(cur, T=[[norm(e) for e in t] for t in cur["T"]])
            if c["T"] != cur["T"] and still(c):
                cur = c
                break
    flat = dict(cur, M=[{"msg": 0, "who": 0, "ts": 0, "tz": 0} for _ in cur["M"]])
    if flat["M"] != cur["M"] and still(flat):
        cur = flat
    if cur["tags"]:
        c = dict(cur, tags=[])
        if still(c):
            cur = c
    return cur, used[0]


def change_classes(h):
    """Fine-grained description of what the LAST revision of a (minimal) history does relative to its left parent,
    plus the shape of the history: the input class of a signature."""
    n = len(h["P"])
    f = set()
    if len(h["P"][n - 1]) > 1:
        f.add("merge")
    if sum(1 for ps in h["P"] if not ps) > 1:
        f.add("second-root")
    if not h["P"][n - 1]:
        for e in h["T"][n - 1]:
            f.add("root-has-" + e["k"])
        return f or {"any-revision"}
    base = h["T"][h["P"][n - 1][0] - 1]
    bo = {e["o"]: e for e in base}
    bp = {tuple(e["p"]): e for e in base}
    cur = {e["o"]: e for e in h["T"][n - 1]}
    newdirs = {tuple(e["p"]) for e in cur.values() if e["k"] == "directory" and
               (e["o"] not in bo or bo[e["o"]]["k"] != "directory" or bo[e["o"]]["p"] != e["p"])}
    for o, e in cur.items():
        b = bo.get(o)
        p = tuple(e["p"])
        where = ""
        if p in bp and bp[p]["o"] != o:
            where += "@path-of-%s-%s" % ("deleted" if bp[p]["o"] not in cur else "moved", bp[p]["k"])
        if p[:-1] in newdirs:
            where += "@in-new-dir"
        if b is None:
            f.add("add-%s%s" % (e["k"], where))
            continue
        if b["p"] != e["p"]:
            f.add("rename-%s%s%s" % (e["k"], "-with-children" if any(tuple(g["p"])[:len(p)] == p and g["o"] != o
                                                                      for g in cur.values()) else "", where))
        if b["k"] != e["k"]:
            f.add("kind-%s-to-%s%s" % (b["k"], e["k"], "-with-children" if any(
                tuple(g["p"])[:len(p)] == p and g["o"] != o for g in cur.values()) else ""))
        elif b["c"] != e["c"]:
            f.add("modify-" + e["k"])
        if b["x"] != e["x"] and b["k"] == e["k"]:
            f.add("chmod")
    for o, b in bo.items():
        if o not in cur:
            f.add("delete-" + b["k"])
    for e in h["T"][n - 1]:
        if e["k"] == "directory" and not any(tuple(g["p"])[:len(e["p"])] == tuple(e["p"]) and g is not e for g in h["T"][n - 1]):
            if e["o"] not in bo or bo[e["o"]] != e or any(tuple(g["p"])[:len(e["p"])] == tuple(e["p"]) and g["o"] != e["o"] for g in base):
                f.add("leaves-empty-dir")
    return f or {"any-revision" if n == 1 else "no-change"}


def class_string(h):
    """The input class of a minimal failing history.  A path that stops being a file / symlink and becomes a directory
    with something inside is one class whatever is put inside."""
    f = change_classes(h)
    if any(c.startswith("kind-") and c.endswith("-to-directory-with-children") for c in f):
        f = {"nondirectory-becomes-directory-with-children"} | (f & {"merge", "second-root"})
    return "+".join(sorted(f))


def minimise_row(h, kind_of, once, names):
    """Common tail of an experiment: when the python twin sees a failure, shrink the history and work out whether the
    failure needs the one-character name.  once(history, names) -> row; kind_of(row) -> failure kind or None.
    Returns (minimal history, input class string, runs used)."""
    m, used = minimise(h, lambda c: kind_of(once(c, names)))
    cls = class_string(m)
    if names == 1 and kind_of(once(m, 0)) is None:
        cls += "+one-character-name"
    return m, cls, used


def cause_group(h, cls):
    """Family of a minimal failing history, for properties whose implementation fails on whole families of inputs
    (fast-export / fast-import and renames).  A family is named only when the minimal history really has its
    ingredients; everything else keeps its fine-grained class, so that a failure outside the families is not absorbed:
      second-root         more than one root revision
      revision-property   needs a revision property
      directory-kind-change   some revision of the minimal history (the last one or one it builds on) changes a path
                          or object between directory and non-directory
      rename-combined     a rename together with a change of ANOTHER object (added, deleted, moved, kind-changed) or
                          with a kind change of the renamed object itself, in some revision of the minimal history
      single-rename[...]  the last revision renames exactly one object (children of a renamed directory follow) and
                          touches nothing else
    """
    extra = "".join("+" + x for x in ("plain", "one-character-name") if ("+" + x) in ("+" + cls))
    if "second-root" in cls:
        return "second-root"
    if "revision-property" in cls:
        return "revision-property"
    groups = [_revision_group(h, r) for r in range(1, len(h["P"]) + 1)]
    for g in ("directory-kind-change", "rename-combined"):
        if g in groups:
            return g + extra
    if groups and groups[-1] and groups[-1].startswith("single-rename"):
        return groups[-1] + extra
    return cls


def _revision_group(h, r):
    if not h["P"][r - 1]:
        return None
    base = {e["o"]: e for e in h["T"][h["P"][r - 1][0] - 1]}
    cur = {e["o"]: e for e in h["T"][r - 1]}
    moved = {o for o, e in cur.items() if o in base and base[o]["p"] != e["p"]}
    implied = set()                                            # children that only follow a renamed directory
    for o in moved:
        for d in moved:
            if d != o and cur[d]["k"] == "directory" and base[d]["k"] == "directory":
                bp, cp = base[d]["p"], cur[d]["p"]
                if base[o]["p"][:len(bp)] == bp and cur[o]["p"][:len(cp)] == cp and base[o]["p"][len(bp):] == cur[o]["p"][len(cp):]:
                    implied.add(o)
    renamed = moved - implied
    others = {o for o in set(base) | set(cur) if o not in moved and base.get(o) != cur.get(o)}
    kind_changed = {o for o in set(base) & set(cur) if base[o]["k"] != cur[o]["k"]}
    dirkind = {o for o in kind_changed if "directory" in (base[o]["k"], cur[o]["k"])}
    bpaths = {tuple(e["p"]): e for e in base.values()}
    for e in cur.values():                                     # another object takes a path over with another dir-ness
        b = bpaths.get(tuple(e["p"]))
        if b is not None and b["o"] != e["o"] and (b["k"] == "directory") != (e["k"] == "directory"):
            dirkind.add(e["o"])
    if dirkind:
        return "directory-kind-change"
    if renamed:
        if len(renamed) > 1 or others or (renamed & kind_changed):
            return "rename-combined"
        o = next(iter(renamed))
        mod = "+modified" if (base[o]["c"], base[o]["x"]) != (cur[o]["c"], cur[o]["x"]) else ""
        return "single-rename-of-%s%s%s" % (cur[o]["k"], "-with-children" if implied else "", mod)
    return None
