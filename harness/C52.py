"""C52 — format upgrades and reconfigurations preserve history and trees."""
import hashlib
import os
import shutil

from vf import env, tlc, table, core, world as vworld
from vf.tlaval import parse_state, to_py

META = dict(
    property_id="C52", level="model_checking", design_ref="DESIGN.md §4 C52",
    technique="TLA+ model of control-dir layouts (working tree yes/no x branch local / bound / reference x repository own / "
              "shared / none x format) with Reconfigure(kind) and Upgrade(format) actions that leave the abstract content "
              "untouched; TLC enumerates every applicable action sequence of the bound and proves the component rules; the "
              "sequences are replayed on real control directories on disk (history with a merge, tags, a working tree with "
              "pending changes), tip / revno / testaments / tags / tree content / iter_changes are recorded after every "
              "step, and TLC judges `unchanged where the target layout has the component`",
    level_text="The model is a channel: identity on an abstract content projection, with the layout algebra (which "
               "components a layout has, which transitions are refused) made explicit and checked by TLC. What the "
               "converters do inside is not modelled (DESIGN §6: generator + property-level law); fidelity comes from "
               "executing breezy.reconfigure / breezy.upgrade on every replayed sequence and comparing projections of the "
               "real objects before and after.",
    level_note="Formats pack-0.92, 1.9, 2a, development-colo; local disk only; one small history (4 revisions incl. a merge, "
               "unusual names) per format. Stacking, nested trees, colocated branches' own histories are out of scope. "
               "Trusted: TLC, the dot-graph parser, bzrformats' (de)serialisers as executed.",
)

FORMATS = ["pack-0.92", "1.9", "2a", "development-colo"]
DAG = [("r1", []), ("r2", ["r1"]), ("r3", ["r1"]), ("r4", ["r2", "r3"])]
TREES = {
    "r1": {"f": ("file", b"one\n", False), "d": ("directory", None, False), "d/g": ("file", b"g1\n", False)},
    "r2": {"f": ("file", b"two\n", False), "d": ("directory", None, False), "d/g": ("file", b"g1\n", False),
           "u-n.txt": ("file", b"unusual\n", False)},
    "r3": {"f": ("file", b"one\n", False), "d": ("directory", None, False), "d/g": ("file", b"g3\n", False),
           "l": ("file", b"side\n", False)},
    "r4": {"f": ("file", b"two\n", False), "d": ("directory", None, False), "d/g": ("file", b"g3\n", False),
           "u-n.txt": ("file", b"unusual\n", False), "l": ("file", b"side\n", False)},
}
TAGS = {"v1": b"r1", "tég": b"r2"}
LOCAL_TAG = ("local-only", b"r3")


def fmt_obj(name):
    from breezy import controldir
    return controldir.format_registry.make_controldir(name)


class Site:
    """D/master: the master / referenced branch; D/s: a plain directory or a shared repository; D/s/loc: the location."""

    def __init__(self, base, lay):
        from breezy import controldir, transport as T
        self.base = base
        self.lay = dict(lay)
        fmt = lay["fmt"]
        src = vworld.build_dag(DAG, fmt=fmt, trees=TREES)
        self.M = os.path.join(base, "master")
        self.S = os.path.join(base, "s")
        self.L = os.path.join(self.S, "loc")
        os.mkdir(self.S)
        mcd = src.controldir.sprout(self.M, revision_id=b"r4", create_tree_if_local=False)
        mb = mcd.open_branch()
        for k, v in TAGS.items():
            mb.tags.set_tag(k, v)
        if lay["above"]:
            scd = fmt_obj(lay["sfmt"]).initialize(self.S)
            srepo = scd.create_repository(shared=True)
            srepo.set_make_working_trees(True)
        os.mkdir(self.L)
        cd = fmt_obj(fmt).initialize(self.L)
        if lay["br"] == "ref":
            cd.set_branch_reference(mb)
            mb.tags.set_tag(*LOCAL_TAG)
        else:
            repo = cd.create_repository() if lay["repo"] == "own" else cd.find_repository()
            repo.fetch(mb.repository, revision_id=b"r4")
            b = cd.create_branch()
            b.set_last_revision_info(3, b"r4")
            for k, v in TAGS.items():
                b.tags.set_tag(k, v)
            b.tags.set_tag(*LOCAL_TAG)
            b.set_parent(mb.base)
            if lay["br"] == "bound":
                b.bind(mb)
        if lay["tree"]:
            wt = cd.create_workingtree()
            if lay["dirty"]:
                self.make_dirty(wt)

    def make_dirty(self, wt):
        with open(os.path.join(self.L, "f"), "wb") as f:
            f.write(b"pending edit\n")
        with open(os.path.join(self.L, "new file"), "wb") as f:
            f.write(b"added\n")
        wt.add(["new file"])
        wt.rename_one("d/g", "g moved")
        with open(os.path.join(self.L, "unversioned"), "wb") as f:
            f.write(b"junk\n")

    # ---- actions
    def reconfigure(self, kind):
        from breezy import controldir, reconfigure as R
        cd = controldir.ControlDir.open(self.L)
        make = {"tree": R.Reconfigure.to_tree, "branch": R.Reconfigure.to_branch, "checkout": R.Reconfigure.to_checkout,
                "lightweight-checkout": R.Reconfigure.to_lightweight_checkout, "use-shared": R.Reconfigure.to_use_shared,
                "standalone": R.Reconfigure.to_standalone}[kind]
        rc = make(cd)
        rc.apply()

    def upgrade(self, fmt, where="loc"):
        from breezy import upgrade as U
        url = self.L if where == "loc" else self.S
        excs = U.upgrade(url, fmt_obj(fmt), clean_up=True)
        if excs:
            raise excs[0]

    # ---- projections
    def layout(self):
        """The real layout, observed."""
        from breezy import controldir, errors
        cd = controldir.ControlDir.open(self.L)
        out = {}
        try:
            cd.open_workingtree()
            out["tree"] = True
        except errors.NoWorkingTree:
            out["tree"] = False
        b = cd.open_branch()
        if b.user_url != cd.user_url:
            out["br"] = "ref"
        else:
            out["br"] = "bound" if b.get_bound_location() else "local"
        if out["br"] == "ref":
            try:
                cd.open_repository()
                out["repo"] = "own-leftover"
            except errors.NoRepositoryPresent:
                out["repo"] = "none"
        else:
            out["repo"] = "own" if b.repository.user_url == cd.user_url else "shared"
        return out

    def content(self):
        """tip, revno, testaments, tags, working tree content + pending changes (if there is a tree)."""
        from breezy import controldir, errors
        from breezy.bzr.testament import StrictTestament3
        cd = controldir.ControlDir.open(self.L)
        b = cd.open_branch()
        out = {}
        with b.lock_read():
            revno, tip = b.last_revision_info()
            out["tip"], out["revno"] = tip.decode(), revno
            g = b.repository.get_graph()
            revs = sorted(r for r, _ in g.iter_ancestry([tip]) if r != b"null:")
            out["testaments"] = [[r.decode(), StrictTestament3.from_revision(b.repository, r).as_sha1().decode()] for r in revs]
            out["parents"] = [[r.decode(), [p.decode() for p in b.repository.get_parent_map([r])[r]]] for r in revs]
            out["tags"] = sorted([k, v.decode()] for k, v in b.tags.get_tag_dict().items())
        try:
            wt = cd.open_workingtree()
        except errors.NoWorkingTree:
            out["wt"] = "none"
            out["changes"] = "none"
            out["disk"] = "none"
        else:
            with wt.lock_read():
                out["wt"] = sorted([p] + v for p, v in vworld.tree_proj(wt).items())
                out["wt_parents"] = [p.decode() for p in wt.get_parent_ids()]
                ch = []
                for c in wt.iter_changes(wt.basis_tree()):
                    ch.append([c.path[0] or "", c.path[1] or "", bool(c.changed_content), list(c.versioned), list(c.kind)])
                out["changes"] = sorted(ch, key=repr)
            out["disk"] = sorted([p] + v for p, v in vworld.disk_proj(self.L, skip=(".bzr", "backup.bzr")).items()
                                 if not p.startswith("backup.bzr"))
        return out
