"""C52 — format upgrades and reconfigurations preserve history and trees."""
import hashlib
import os
import shutil

from vf import env, tlc, table, core, world as vworld
from vf.tlaval import parse_state, to_py

META = dict(
    property_id="C52", level="model_checking", design_ref="DESIGN.md §4 C52",
    technique="TLA+ model of control-dir layouts (working tree yes/no x branch local / bound / reference x repository own / "
              "shared / none x format) with Reconfigure(kind) and Upgrade(format) actions that leave the abstract content "
              "untouched; TLC enumerates every applicable action sequence of the bound and proves the component rules; the "
              "sequences are replayed on real control directories on disk (history with a merge, tags, a working tree with "
              "pending changes), tip / revno / testaments / tags / tree content / iter_changes are recorded after every "
              "step, and TLC judges `unchanged where the target layout has the component`",
    level_text="The model is a channel: identity on an abstract content projection, with the layout algebra (which "
               "components a layout has, which transitions are refused) made explicit and checked by TLC. What the "
               "converters do inside is not modelled (DESIGN §6: generator + property-level law); fidelity comes from "
               "executing breezy.reconfigure / breezy.upgrade on every replayed sequence and comparing projections of the "
               "real objects before and after.",
    level_note="Formats pack-0.92, 1.9, 2a, development-colo; local disk only; one small history (4 revisions incl. a merge, "
               "unusual names) per format. Stacking, nested trees, colocated branches' own histories are out of scope. "
               "Trusted: TLC, the dot-graph parser, bzrformats' (de)serialisers as executed.",
)

FORMATS = ["pack-0.92", "1.9", "2a", "development-colo"]
# r1..r4: the shared mainline (r4 merges r3).  x1: off the mainline, only a TAG points to it.  p1: off the mainline, pending-
# merged into a working tree that has pending changes.  m5 / l5: one more commit on the master / on the location.
DAG = [("r1", []), ("r2", ["r1"]), ("r3", ["r1"]), ("r4", ["r2", "r3"]), ("x1", ["r2"]), ("p1", ["r3"]), ("m5", ["r4"]), ("l5", ["r4"])]
TREES = {
    "r1": {"f": ("file", b"one\n", False), "d": ("directory", None, False), "d/g": ("file", b"g1\n", False)},
    "r2": {"f": ("file", b"two\n", False), "d": ("directory", None, False), "d/g": ("file", b"g1\n", False),
           "u-n.txt": ("file", b"unusual\n", False)},
    "r3": {"f": ("file", b"one\n", False), "d": ("directory", None, False), "d/g": ("file", b"g3\n", False),
           "l": ("file", b"side\n", False)},
    "r4": {"f": ("file", b"two\n", False), "d": ("directory", None, False), "d/g": ("file", b"g3\n", False),
           "u-n.txt": ("file", b"unusual\n", False), "l": ("file", b"side\n", False)},
}
TAGS = {"v1": b"r1", "t\u00e9g": b"r2"}
LOCAL_TAG = ("local-only", b"r3")
OFF_TAG = ("off-mainline", b"x1")
REVNO = {b"r4": 3, b"m5": 4, b"l5": 4}


def fmt_obj(name):
    from breezy import controldir
    return controldir.format_registry.make_controldir(name)


_SRC = {}


def source_history(fmt):
    """The revisions every fixture is cut from (built once per format and process; only ever read)."""
    if fmt not in _SRC:
        _SRC[fmt] = vworld.build_dag(DAG, fmt=fmt, trees=TREES)
    return _SRC[fmt]


class Site:
    """D/master: the master / referenced branch; D/s: a plain directory or a shared repository; D/s/loc: the location.

    lay["sync"] says how the master's tip relates to the location's: same | master-ahead | local-ahead | diverged.
    The repository the location's branch uses always holds two revisions OUTSIDE the tip's ancestry: x1 (a tag points to
    it) and p1 (pending-merged into the working tree when that has pending changes).  lay["pre"]: the enclosing shared
    repository already holds the tip's ancestry (a sibling branch s/other was made from it earlier)."""

    def __init__(self, base, lay):
        from breezy import controldir
        self.base = base
        self.lay = dict(lay)
        fmt = lay["fmt"]
        sync = lay.get("sync", "same")
        src = source_history(lay.get("mfmt", fmt))
        self.M = os.path.join(base, "master")
        self.S = os.path.join(base, "s")
        self.L = os.path.join(self.S, "loc")
        os.mkdir(self.S)
        mtip = b"m5" if sync in ("master-ahead", "diverged") else b"r4"
        ltip = b"l5" if sync in ("local-ahead", "diverged") else b"r4"
        mcd = src.controldir.sprout(self.M, revision_id=mtip, create_tree_if_local=False)
        mb = mcd.open_branch()
        for k, v in TAGS.items():
            mb.tags.set_tag(k, v)
        if lay["above"]:
            scd = fmt_obj(lay["sfmt"]).initialize(self.S)
            srepo = scd.create_repository(shared=True)
            srepo.set_make_working_trees(True)
            if lay.get("pre"):
                other = os.path.join(self.S, "other")
                os.mkdir(other)
                ocd = fmt_obj(lay["sfmt"]).initialize(other)
                ocd.find_repository().fetch(src.repository, revision_id=ltip)
                ocd.create_branch().set_last_revision_info(REVNO[ltip], ltip)
        os.mkdir(self.L)
        cd = fmt_obj(fmt).initialize(self.L)
        if lay["br"] == "ref":
            for extra in (b"x1", b"p1"):
                mb.repository.fetch(src.repository, revision_id=extra)
            cd.set_branch_reference(mb)
            mb.tags.set_tag(*LOCAL_TAG)
            mb.tags.set_tag(*OFF_TAG)
        else:
            repo = cd.create_repository() if lay["repo"] == "own" else cd.find_repository()
            for r in (ltip, b"x1", b"p1"):
                repo.fetch(src.repository, revision_id=r)
            b = cd.create_branch()
            b.set_last_revision_info(REVNO[ltip], ltip)
            for k, v in TAGS.items():
                b.tags.set_tag(k, v)
            b.tags.set_tag(*LOCAL_TAG)
            b.tags.set_tag(*OFF_TAG)
            b.set_parent(mb.base)
            if lay["br"] == "bound":
                if sync == "same":
                    b.bind(mb)
                else:
                    b.set_bound_location(mb.base)   # (bind() itself refuses a master that is not in step)
        if lay["tree"]:
            wt = cd.create_workingtree()
            if lay["dirty"]:
                self.make_dirty(wt)
                wt.add_parent_tree_id(b"p1")

    def make_dirty(self, wt):
        with open(os.path.join(self.L, "f"), "wb") as f:
            f.write(b"pending edit\n")
        with open(os.path.join(self.L, "new file"), "wb") as f:
            f.write(b"added\n")
        wt.add(["new file"])
        wt.rename_one("d/g", "g moved")
        with open(os.path.join(self.L, "unversioned"), "wb") as f:
            f.write(b"junk\n")

    # ---- actions
    def reconfigure(self, kind):
        from breezy import controldir, reconfigure as R
        cd = controldir.ControlDir.open(self.L)
        make = {"tree": R.Reconfigure.to_tree, "branch": R.Reconfigure.to_branch, "checkout": R.Reconfigure.to_checkout,
                "lightweight-checkout": R.Reconfigure.to_lightweight_checkout, "use-shared": R.Reconfigure.to_use_shared,
                "standalone": R.Reconfigure.to_standalone}[kind]
        rc = make(cd)
        rc.apply()

    def upgrade(self, fmt, where="loc"):
        from breezy import upgrade as U
        url = self.L if where == "loc" else self.S
        excs = U.upgrade(url, fmt_obj(fmt), clean_up=True)
        if excs:
            raise excs[0]

    # ---- projections
    def layout(self):
        """The real layout, observed."""
        from breezy import controldir, errors
        cd = controldir.ControlDir.open(self.L)
        out = {}
        try:
            cd.open_workingtree()
            out["tree"] = True
        except errors.NoWorkingTree:
            out["tree"] = False
        b = cd.open_branch()
        if b.user_url != cd.user_url:
            out["br"] = "ref"
        else:
            out["br"] = "bound" if b.get_bound_location() else "local"
        if out["br"] == "ref":
            try:
                cd.open_repository()
                out["repo"] = "unused"
            except errors.NoRepositoryPresent:
                out["repo"] = "none"
        else:
            out["repo"] = "own" if b.repository.user_url == cd.user_url else "shared"
        return out

    def content(self):
        """tip, revno, testaments, tags, working tree content + pending changes (if there is a tree)."""
        from breezy import controldir, errors
        from breezy.bzr.testament import StrictTestament3
        cd = controldir.ControlDir.open(self.L)
        b = cd.open_branch()
        out = {}
        with b.lock_read():
            revno, tip = b.last_revision_info()
            out["tip"], out["revno"] = tip.decode(), revno
            g = b.repository.get_graph()
            revs = sorted(r for r, _ in g.iter_ancestry([tip]) if r != b"null:")
            out["testaments"] = [[r.decode(), StrictTestament3.from_revision(b.repository, r).as_sha1().decode()] for r in revs]
            out["parents"] = [[r.decode(), [p.decode() for p in b.repository.get_parent_map([r])[r]]] for r in revs]
            out["tags"] = sorted([k, v.decode()] for k, v in b.tags.get_tag_dict().items())
            referenced = set(b.tags.get_tag_dict().values())
        try:
            wt = cd.open_workingtree()
        except errors.NoWorkingTree:
            out["wt"] = "none"
            out["changes"] = "none"
            out["disk"] = "none"
        else:
            with wt.lock_read():
                out["wt"] = sorted([p] + v for p, v in vworld.tree_proj(wt).items())
                out["wt_parents"] = [p.decode() for p in wt.get_parent_ids()]
                ch = []
                for c in wt.iter_changes(wt.basis_tree()):
                    ch.append([c.path[0] or "", c.path[1] or "", bool(c.changed_content), list(c.versioned), list(c.kind)])
                out["changes"] = sorted(ch, key=repr)
            out["disk"] = sorted([p] + v for p, v in vworld.disk_proj(self.L, skip=(".bzr", "backup.bzr")).items()
                                 if not p.startswith("backup.bzr"))
            referenced |= {p.encode() for p in out["wt_parents"][1:]}          # pending merges (the basis is `history`)
        # every revision a tag or a tree parent names: still there, with the same testament?
        refs = []
        with b.lock_read():
            for r in sorted(referenced):
                if b.repository.has_revision(r):
                    refs.append([r.decode(), StrictTestament3.from_revision(b.repository, r).as_sha1().decode()])
                else:
                    refs.append([r.decode(), "ABSENT"])
        out["refs"] = refs
        return out


# ----------------------------------------------------------------------------- replay
import json
import re
import signal

_label = re.compile(r'^(\w+)(?:\((.*)\))?$')
ALREADY = ("AlreadyBranch", "AlreadyTree", "AlreadyCheckout", "AlreadyLightweightCheckout", "AlreadyUsingShared",
           "AlreadyStandalone")


class Hang(Exception):
    pass


def _alarm(*a):
    raise Hang()


def isolated(fn, timeout, extra_mem=3 << 30):
    """Run fn() in a forked child (the state it works on is on disk).  Returns "ok:", "exc:<ExceptionName>" or
    "die:<why>" when the child had to be killed after `timeout` seconds or died (memory limit, abort)."""
    import resource
    import select
    r, w = os.pipe()
    pid = os.fork()
    if pid == 0:
        msg = b"die:unknown"
        try:
            os.close(r)
            with open("/proc/self/statm") as f:
                now = int(f.read().split()[0]) * os.sysconf("SC_PAGE_SIZE")
            resource.setrlimit(resource.RLIMIT_AS, (now + extra_mem, now + extra_mem))
            try:
                fn()
                msg = b"ok:"
            except MemoryError:
                msg = b"die:MemoryError"
            except BaseException as e:
                msg = ("exc:" + type(e).__name__).encode()
            os.write(w, msg)
        finally:
            os._exit(0)
    os.close(w)
    try:
        ready = select.select([r], [], [], timeout)[0]
        data = os.read(r, 200).decode() if ready else ""
        if not ready:
            os.kill(pid, signal.SIGKILL)
            data = "die:Timeout"
        os.waitpid(pid, 0)
        return data or "die:Crashed"
    finally:
        os.close(r)


def canon(c):
    """Content projection -> one canonical string per component (TLC compares them)."""
    s = lambda v: json.dumps(v, sort_keys=True, ensure_ascii=True)
    return {"tip": c["tip"], "revno": c["revno"], "testaments": s(c["testaments"]), "parents": s(c["parents"]),
            "tags": s(c["tags"]), "hasTree": c["wt"] != "none", "wt": s(c["wt"]), "wtparents": s(c.get("wt_parents", [])),
            "changes": s(c["changes"]), "disk": s(c["disk"]), "tipTree": s(c["tipTree"]), "refs": c["refs"]}


def replay_paths(sub, chunk):
    from breezy import ui
    import logging
    ui.ui_factory = ui.SilentUIFactory()
    logging.getLogger("brz").setLevel(logging.CRITICAL)       # converters and config chatter on stderr
    for k, (path, states) in enumerate(chunk):
        base = os.path.join(sub.workdir, "site%d" % k)
        os.mkdir(base)
        try:
            replay_one(sub, base, path, states)
        finally:
            shutil.rmtree(base, ignore_errors=True)


def tip_tree(site):
    from breezy import controldir
    b = controldir.ControlDir.open(site.L).open_branch()
    return sorted([p] + v for p, v in vworld.tree_proj(b.repository.revision_tree(b.last_revision())).items())


def replay_one(sub, base, path, states):
    lay0 = states[path[0][1]]["lay"]
    site = Site(base, lay0)
    r0 = site.layout()
    if any(r0[x] != lay0[x] for x in ("tree", "br", "repo")):
        sub.machinery("fixture for %s came out as %s" % (lay0, r0))
    c0 = site.content()
    c0["tipTree"] = tip_tree(site)
    log = []
    rows = sub.cov.setdefault("_collect", [])
    for i in range(1, len(path)):
        act, nid = path[i]
        l0, st1 = states[path[i - 1][1]]["lay"], states[nid]
        m = _label.match(act)
        name, arg = m.group(1), (m.group(2) or "").strip('"')
        if name not in ("Reconfigure", "Upgrade", "UpgradeShared"):
            sub.machinery("unknown action " + act)
        # upgrades run in a child process: a call the model says never returns gets 8 s, any other 120 s, and a conversion
        # loop that never ends also never stops allocating (the child has an address-space limit).  Reconfigurations have
        # no such loop; they run in this process under an alarm (forking is expensive here).
        unspecified = name != "Reconfigure" and not l0["pure"]
        budget = 8 if st1["last"] == "diverges" else (60 if unspecified else 120)
        if name == "Reconfigure":
            signal.signal(signal.SIGALRM, _alarm)
            signal.alarm(budget)
            try:
                site.reconfigure(arg)
                res = "ok:"
            except Hang:
                res = "die:Timeout"
            except Exception as e:
                res = "exc:" + type(e).__name__
            finally:
                signal.alarm(0)
        elif name == "Upgrade":
            res = isolated(lambda: site.upgrade(arg), budget)
        else:
            res = isolated(lambda: site.upgrade(arg, "shared"), budget)
        exc = res[4:]
        rout = "ok" if res == "ok:" else ("diverges" if res.startswith("die:") else ("already" if exc in ALREADY else "refused"))
        log.append([name, arg, rout, exc])
        try:
            r1 = site.layout()
            c1 = site.content()
            c1["tipTree"] = tip_tree(site)
        except Exception as e:
            # the location cannot even be opened / read any more
            sub.violation("unreadable-after:%s(%s):%s" % (name, arg if name == "Reconfigure" else "format", type(e).__name__),
                          "after %s the location cannot be read: %s: %s" % (log, type(e).__name__, str(e)[:200]),
                          {"initial_layout": lay0, "log": log})
            sub.count(1)
            return
        rows.append({"l0": l0, "l1": st1["lay"], "out": st1["last"], "act": name, "arg": arg, "r1": r1, "rout": rout, "c0": canon(c0), "c1": canon(c1),
                     "model_drops": st1["drops"],
                     "meta": {"initial_layout": lay0, "log": [list(x) for x in log], "exc": exc,
                              "before": {k: c0[k] for k in ("tip", "revno", "tags", "refs", "wt_parents", "changes", "wt") if k in c0},
                              "after": {k: c1[k] for k in ("tip", "revno", "tags", "refs", "wt_parents", "changes", "wt") if k in c1}}})
        sub.count(1)
        if rout == "ok" and st1["lay"] != l0:
            sub.nontrivial(repr((sorted(lay0.items()), [tuple(x[:2]) for x in log])))
        c0 = c1
        if rout == "diverges" or (unspecified and rout != st1["last"]):
            break               # an interrupted conversion / an unspecified outcome: nothing further is predicted
    if len(sub.cov["samples"]) < 1 and len(log) >= 2 and all(x[2] == "ok" for x in log):
        sub.sample({"initial_layout": lay0, "steps": log})


def cfg(maxsteps, formats, extra=""):
    return ("SPECIFICATION Spec\nCONSTANTS\n  MaxSteps = %d\n  InitFormats = {%s}\nINVARIANT LayoutOK\nINVARIANT ContentPreserved\n"
            % (maxsteps, ", ".join('"%s"' % f for f in formats))) + extra


PROVED = ("PROPERTY PendingKept\nPROPERTY CreatedClean\nPROPERTY RefusalIsNoop\nPROPERTY NeverDropsPending\n"
          "PROPERTY DropsOnlyWhereNamed\nPROPERTY TipNeverJumps\n")


def run(ctx):
    env.init()
    steps = 2 if ctx.tier != "thorough" else 3
    tlc.check(ctx, "Layouts", cfg_text=cfg(steps, FORMATS, PROVED), label="layout algebra, all sequences <= %d" % steps, workers=8)
    # ReferencedKept: the implementation-shaped model does lose off-mainline revisions where DropsOffMainline says
    wits = [("WitnessRoundTrip", FORMATS), ("ReferencedKept", ["2a"])]
    if ctx.tier == "thorough":
        wits += [("WitnessUnused", FORMATS), ("WitnessUpgradedShared", ["pack-0.92"])]
    for wit, fm in wits:
        tlc.check(ctx, "Layouts", cfg_text=cfg(2, fm, "INVARIANT %s\n" % wit), expect_violation=wit, label="witness " + wit, workers=4)
    nodes, edges, inits, res = tlc.graph(ctx, "Layouts", cfg_text=cfg(steps, FORMATS), label="state graph", workers=8)
    # TLC names the nodes by fingerprints that differ from run to run, and its workers dump them in any order: rename the
    # nodes by the rank of their state text, so that the seed alone decides what is replayed
    ren = {old: "n%06d" % i for i, old in enumerate(sorted(nodes, key=lambda n: nodes[n]))}
    nodes = {ren[k]: v for k, v in nodes.items()}
    edges, inits = sorted((ren[a], act, ren[b]) for a, act, b in edges), sorted(ren[i] for i in inits)
    paths = [p for p in tlc.transition_cover(nodes, edges, inits, rng=ctx.rng) if len(p) > 1]
    ctx.cov["graph"] = {"nodes": len(nodes), "edges": len(edges), "initial_layouts": len(inits), "cover_paths": len(paths)}
    ncover = len(paths)
    parsed = {}

    def st(nid):
        if nid not in parsed:
            parsed[nid] = to_py(parse_state(nodes[nid]))
        return parsed[nid]
    # prefer sequences in which more steps actually change something
    def weight(p):
        return -sum(1 for _, nid in p[1:] if '/\\ last = "ok"' in nodes[nid])
    ctx.rng.shuffle(paths)
    paths.sort(key=weight)
    want = (210 if ctx.quick else 1200) if ctx.tier != "tiny" else 10
    # round-robin over the kinds of first step so that every transition kind is replayed: reconfigurations by source
    # layout (with / without pending changes), upgrades by (from, to) format and which components sit at the location
    def own(l):
        return l["repo"] in ("own", "unused")
    groups = {}
    for p in paths:
        l0 = st(p[0][1])["lay"]
        m = _label.match(p[1][0])
        name, arg = m.group(1), (m.group(2) or "").strip('"')
        if name == "Reconfigure":
            key = ("R", l0["tree"], l0["br"], l0["repo"], l0["dirty"], arg)
            if arg in ("lightweight-checkout", "checkout") and l0["sync"] != "same":
                key = ("R", l0["tree"], l0["br"], l0["repo"], l0["sync"], arg)      # master ahead / behind / diverged
            elif arg == "use-shared":
                key += (l0["pre"],)                                                  # shared repository empty / has the tip
        elif name == "Upgrade":
            key = ("U", l0["fmt"], arg, own(l0), l0["tree"])
        else:
            key = ("US", l0["sfmt"], arg, l0["repo"] == "shared")
        groups.setdefault(key, []).append(p)
    picked = []
    keys = sorted(groups, key=repr)
    ctx.cov["first_step_kinds"] = len(keys)
    while len(picked) < want and any(groups[k] for k in keys):
        for k in keys:
            if groups[k] and len(picked) < want:
                picked.append(groups[k].pop(0))
    jobs = [(p, {nid: st(nid) for _, nid in p}) for p in picked]
    ninit = len(inits)
    # the workers fork a child per operation: do not let them inherit the whole graph
    del nodes, edges, paths, groups, parsed, picked, ren
    import gc
    gc.collect()
    ctx.rule("sequences = paths of a transition cover of TLC's state graph of Layouts.tla (%d initial layouts: tree yes/no x branch "
             "local / bound / reference x repository own / shared / none x inside a shared repository (empty / holding the tip) or "
             "not x 4 formats x clean / pending changes + pending merge x master same / ahead / behind / diverged; <= %d actions of Reconfigure(6 targets), Upgrade(4 formats), UpgradeShared(4 formats)); "
             "%d cover paths, replayed: %d (round-robin over the kinds of first step: reconfigurations by source layout and "
             "pending changes, master relation for (lightweight-)checkout, upgrades by formats and components; sequences with more effective steps first); non-trivial = sequence whose steps change the layout; distinct = (initial layout, actions)"
             % (ninit, steps, ncover, len(jobs)))
    core.fork_map(ctx, replay_paths, jobs)
    rows = ctx.collected
    if not rows:
        ctx.machinery("nothing was replayed")
    verdicts = table.judge(ctx, "LayoutsTrace", [dict({k: r[k] for k in ("l0", "l1", "act", "arg", "r1", "rout", "c0", "c1")}, k=k)
                                                  for k, r in enumerate(rows)])
    for jr, failed, drift in verdicts:
        r = rows[jr["k"]]
        meta = r["meta"]
        name, arg = meta["log"][-1][0], meta["log"][-1][1]
        l0 = r["l0"]
        src = "%s,%s,%s" % ("tree" if l0["tree"] else "no-tree", l0["br"], l0["repo"])
        for law in failed:
            what = "%s(%s)" % (name, arg) if name == "Reconfigure" else "%s(%s>%s)" % (name, l0["fmt"], arg)
            if law == "referenced":
                # which kind of named revision went missing, and between which repositories the branch moved
                b, a = dict(map(tuple, meta["before"]["refs"])), dict(map(tuple, meta["after"]["refs"]))
                pend = set(meta["before"].get("wt_parents", [])[1:])
                kinds = sorted({("pending-merge" if rv in pend else "tag-target") for rv in b if b[rv] != "ABSENT" and a.get(rv) != b[rv]})
                norm = lambda x: "none" if x == "unused" else x          # (a left-over own repository plays no part)
                move = "%s>%s" % (norm(l0["repo"]), norm(r["l1"]["repo"]))
                for kd in kinds:
                    ctx.violation("referenced:%s:%s:%s%s" % (name, move, kd, "" if r["model_drops"] else ":unpredicted"),
                                  "%s on a [%s] location: %s revisions named by the location are no longer in its repository "
                                  "(before %s, after %s)" % (what, src, kd, meta["before"]["refs"], meta["after"]["refs"]), meta)
                continue
            ctx.violation("%s:%s:%s%s" % (law, what, src, ",pending" if l0["dirty"] else ""),
                          "%s on a [%s] location (%s): law %s fails; before %s after %s" % (
                              what, src, meta["exc"] or "no exception", law, meta["before"], meta["after"]), meta)
        if drift and not failed:
            ctx.drift("layout / outcome differs from the model after %s(%s) on [%s fmt=%s above=%s]: model %s %s, real %s %s (%s)" % (
                name, arg, src, l0["fmt"], l0["above"], r["out"], {k: r["l1"][k] for k in ("tree", "br", "repo")}, r["rout"], r["r1"],
                meta["exc"]), meta)
