"""Framework core: check context, verdict rule, known findings, evidence.

Exit codes (DESIGN 2.4): 0 held / only known findings, 1 VIOLATION, 2 machinery failure.
"""
import hashlib
import json
import os
import random
import shutil
import sys
import tempfile
import time
import traceback

VERIF = os.path.dirname(os.path.dirname(os.path.abspath(__file__)))
REPO = os.environ.get("VERIF_REPO", "/repo")
SPECS = os.path.join(VERIF, "specs")
EVIDENCE = os.path.join(VERIF, "evidence")
REPLAYS = os.path.join(VERIF, "replays")
FINDINGS = os.path.join(VERIF, "known_findings.json")
GUARD = "BRZ_VERIF_TRACE"


def max_workers(default=16):
    """Parallelism cap.  Development-time throttle: an integer in /verif/.work/workers (git-ignored, absent in a fresh
    restore) or $VF_WORKERS lowers it while several checks are being developed side by side."""
    try:
        return max(1, int(os.environ.get("VF_WORKERS") or open(os.path.join(VERIF, ".work", "workers")).read().strip()))
    except Exception:
        return default


class MachineryError(Exception):
    """The check itself could not run (TLC error, vacuity guard, build failure)."""


def jsonable(x):
    if isinstance(x, bytes):
        try:
            return "b:" + x.decode("utf-8")
        except UnicodeDecodeError:
            return "hex:" + x.hex()
    if isinstance(x, (set, frozenset)):
        return sorted((jsonable(i) for i in x), key=lambda v: json.dumps(v, sort_keys=True))
    if isinstance(x, (list, tuple)):
        return [jsonable(i) for i in x]
    if isinstance(x, dict):
        return {(k if isinstance(k, str) else json.dumps(jsonable(k))): jsonable(v) for k, v in x.items()}
    if isinstance(x, (str, int, float, bool)) or x is None:
        return x
    return repr(x)


def load_findings():
    if not os.path.exists(FINDINGS):
        return []
    with open(FINDINGS) as f:
        return json.load(f)["findings"]


class Ctx:
    def __init__(self, pid, tier, seed, meta):
        self.pid = pid
        self.tier = tier
        self.seed = seed
        self.meta = meta
        self.rng = random.Random(seed)
        self.t0 = time.time()
        self.workdir = tempfile.mkdtemp(prefix="vf-%s-" % pid, dir=os.environ.get("TMPDIR") or None)
        self.violations = []      # (signature, description, replay_data)
        self.drifts = []
        self.cov = {"states": 0, "transitions": 0, "traces_validated_against_impl": 0, "samples": [],
                    "evaluations": 0, "distinct_nontrivial": 0, "rule": "", "tlc_runs": [], "drift": 0}
        self._nontrivial = set()
        self.assumptions = []
        self.findings = [f for f in load_findings() if f["property"] == pid]
        self.quick = tier == "quick"
        self.collected = []       # items handed back by fork_map workers (sub.cov["_collect"])

    # ---- scratch
    def tmp(self, name):
        p = os.path.join(self.workdir, name)
        os.makedirs(p, exist_ok=True)
        return p

    def cleanup(self):
        shutil.rmtree(self.workdir, ignore_errors=True)

    # ---- coverage bookkeeping
    def add_tlc(self, res, label=None):
        """Fold a TLC run's statistics into the evidence."""
        self.cov["states"] += res.get("distinct", 0)
        self.cov["transitions"] += res.get("generated", 0)
        self.cov["tlc_runs"].append({k: res.get(k) for k in
                                     ("module", "cfg", "mode", "generated", "distinct", "depth", "wall_s", "actions")}
                                    | ({"label": label} if label else {}))

    def count(self, n=1, traces=0):
        self.cov["evaluations"] += n
        self.cov["traces_validated_against_impl"] += traces

    def nontrivial(self, key):
        """Record a distinct non-trivial case (key must be hashable / jsonable)."""
        if not isinstance(key, (str, bytes, int, tuple)):
            key = json.dumps(jsonable(key), sort_keys=True)
        self._nontrivial.add(key)

    def sample(self, case, limit=6):
        if len(self.cov["samples"]) < limit:
            self.cov["samples"].append(jsonable(case))

    def rule(self, text):
        self.cov["rule"] = text

    def assume(self, text):
        if text not in self.assumptions:
            self.assumptions.append(text)

    # ---- verdicts
    def violation(self, signature, description, replay=None):
        """A real execution of the current tree violated the property as stated.

        signature: narrow class of the failure (failing clause : code-level site : input class);
        matched against known_findings.json entries with status 'finding'.
        """
        self.violations.append((signature, description, jsonable(replay)))

    def drift(self, description, detail=None):
        """Model-conformance mismatch: reported, counted, does not fail the check."""
        self.cov["drift"] += 1
        if len(self.drifts) < 20:
            self.drifts.append((description, jsonable(detail)))

    def machinery(self, msg):
        raise MachineryError(msg)

    # ---- finish
    def finish(self):
        wall = time.time() - self.t0
        known = {}
        unknown = []
        for sig, desc, rep in self.violations:
            f = next((f for f in self.findings if f.get("status") == "finding" and f["signature"] == sig), None)
            if f is not None:
                known.setdefault(sig, [f, 0, desc, rep])
                known[sig][1] += 1
            else:
                unknown.append((sig, desc, rep))
        lines = []
        for sig, (f, n, desc, rep) in sorted(known.items()):
            lines.append("KNOWN-FINDING: property=%s %s [signature=%s occurrences=%d e.g. %s]" % (
                self.pid, f["description"], sig, n, desc))
        seen = set()
        for sig, desc, rep in unknown:
            if sig in seen:
                continue
            seen.add(sig)
            os.makedirs(os.path.join(REPLAYS, self.pid), exist_ok=True)
            h = hashlib.sha1(json.dumps([sig, rep], sort_keys=True, default=repr).encode()).hexdigest()[:12]
            path = os.path.join(REPLAYS, self.pid, "%s.json" % h)
            with open(path, "w") as fp:
                json.dump({"property": self.pid, "signature": sig, "description": desc, "replay": rep,
                           "tier": self.tier, "seed": self.seed}, fp, indent=1, default=repr)
            lines.append("VIOLATION property=%s replay=%s" % (self.pid, path))
            lines.append("  signature=%s :: %s" % (sig, desc))
        for d, det in self.drifts:
            lines.append("DRIFT property=%s %s" % (self.pid, d))
        cov = dict(self.cov)
        cov.pop("_collect", None)
        cov["distinct_nontrivial"] = len(self._nontrivial)
        if not cov["samples"]:
            cov["samples"] = ["(no sample recorded)"]
        cov["known_findings_seen"] = sorted(known)
        cov["unlisted_violation_signatures"] = sorted(seen)
        if self.drifts:
            cov["drift_examples"] = [{"what": d, "detail": det} for d, det in self.drifts[:5]]
        ev = {"property_id": self.pid, "tier": self.tier, "seed": self.seed,
              "level": self.meta.get("level", "model_checking"), "coverage": cov,
              "assumptions": self.assumptions, "wall_s": round(wall, 2),
              "violations": len(unknown)}
        os.makedirs(EVIDENCE, exist_ok=True)
        with open(os.path.join(EVIDENCE, "%s.json" % self.pid), "w") as fp:
            json.dump(ev, fp, indent=1, sort_keys=True, default=repr)
            fp.write("\n")
        for l in lines:
            print(l)
        print("%s tier=%s seed=%d: %d evaluations, %d distinct non-trivial, %d spec states, %d impl traces, "
              "%d known-finding classes, %d unlisted violation classes, drift=%d, %.1fs" % (
                  self.pid, self.tier, self.seed, cov["evaluations"], cov["distinct_nontrivial"], cov["states"],
                  cov["traces_validated_against_impl"], len(known), len(seen), cov["drift"], wall))
        return 1 if unknown else 0


def run_check(pid, tier, seed, replay=None):
    import importlib
    sys.path.insert(0, VERIF)
    try:
        mod = importlib.import_module("harness.%s" % pid)
    except ImportError as e:
        print("MACHINERY-FAILURE property=%s no harness: %s" % (pid, e))
        return 2
    ctx = Ctx(pid, tier, seed, mod.META)
    try:
        if replay:
            with open(replay) as fp:
                rep = json.load(fp)
            if not hasattr(mod, "replay"):
                print("harness %s has no replay(); replay file content:\n%s" % (pid, json.dumps(rep, indent=1)))
                return 0
            mod.replay(ctx, rep)
        else:
            mod.run(ctx)
        return ctx.finish()
    except MachineryError as e:
        print("MACHINERY-FAILURE property=%s %s" % (pid, e))
        return 2
    except Exception:
        traceback.print_exc()
        print("MACHINERY-FAILURE property=%s unexpected exception in harness" % pid)
        return 2
    finally:
        ctx.cleanup()


# ----------------------------------------------------------------------------- parallel replay
def _worker(args):
    pid, tier, seed, meta, workdir, fn, chunk, idx = args
    sub = Ctx.__new__(Ctx)
    sub.pid, sub.tier, sub.seed, sub.meta = pid, tier, seed, meta
    sub.rng = random.Random(seed * 1000 + idx)
    sub.t0 = time.time()
    sub.workdir = os.path.join(workdir, "w%d_%d" % (idx, os.getpid()))
    os.makedirs(sub.workdir, exist_ok=True)
    sub.violations, sub.drifts = [], []
    sub.cov = {"states": 0, "transitions": 0, "traces_validated_against_impl": 0, "samples": [],
               "evaluations": 0, "distinct_nontrivial": 0, "rule": "", "tlc_runs": [], "drift": 0}
    sub._nontrivial = set()
    sub.assumptions = []
    sub.findings = []
    sub.quick = tier == "quick"
    try:
        fn(sub, chunk)
    except MachineryError as e:
        return {"error": str(e)}
    except Exception:
        return {"error": traceback.format_exc()}
    finally:
        shutil.rmtree(sub.workdir, ignore_errors=True)
    return {"violations": sub.violations, "drifts": sub.drifts, "cov": sub.cov, "nontrivial": sub._nontrivial,
            "assumptions": sub.assumptions}


def fork_map(ctx, fn, items, nproc=None, chunks_per_proc=4):
    """Run fn(subctx, chunk_of_items) in forked workers; merge verdicts and coverage into ctx.

    fn must be a module-level function; call env.init() in the parent first so children inherit the import."""
    import multiprocessing as mp
    items = list(items)
    if not items:
        return
    nproc = min(nproc or 16, os.cpu_count() or 4, max_workers())
    nchunks = max(1, min(len(items), nproc * chunks_per_proc))
    chunks = [items[i::nchunks] for i in range(nchunks)]
    args = [(ctx.pid, ctx.tier, ctx.seed, ctx.meta, ctx.workdir, fn, ch, i) for i, ch in enumerate(chunks)]
    # ProcessPoolExecutor, not multiprocessing.Pool: when a worker is killed by the operating system (out of memory)
    # Pool.map waits forever; the executor raises BrokenProcessPool, which is a machinery failure (exit 2), not a hang
    from concurrent.futures import ProcessPoolExecutor
    from concurrent.futures.process import BrokenProcessPool
    try:
        with ProcessPoolExecutor(max_workers=nproc, mp_context=mp.get_context("fork")) as pool:
            results = list(pool.map(_worker, args))
    except BrokenProcessPool as e:
        raise MachineryError("a replay worker process died abruptly (killed by the operating system, e.g. out of "
                             "memory): %s" % e)
    for r in results:
        if "error" in r:
            raise MachineryError("worker failed: " + r["error"][-3000:])
        ctx.violations.extend(r["violations"])
        for d in r["drifts"]:
            if len(ctx.drifts) < 20:
                ctx.drifts.append(d)
        for k in ("states", "transitions", "traces_validated_against_impl", "evaluations", "drift"):
            ctx.cov[k] += r["cov"][k]
        ctx.cov["tlc_runs"].extend(r["cov"]["tlc_runs"])
        for s in r["cov"]["samples"]:
            ctx.sample(s)
        ctx.collected.extend(r["cov"].get("_collect", []))
        ctx._nontrivial |= r["nontrivial"]
        for a in r["assumptions"]:
            ctx.assume(a)
