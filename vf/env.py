"""Bring up breezy from /repo's current working tree (Python in place, Rust rebuilt offline)."""
import importlib.abc
import importlib.machinery
import importlib.util
import os
import subprocess
import sys

from .core import REPO, MachineryError, GUARD

RUST = {
    "breezy._osutils_rs": "libosutils_py.so",
    "breezy._cmd_rs": "libcmd_py.so",
    "breezy._patch_rs": "libpatch_py.so",
    "breezy._git_rs": "libgit_py.so",
    "breezy._annotator_rs": "libannotate_py.so",
    "breezy.zlib_util": "libzlib_util_py.so",
}
_built = False


def target_dir():
    """Where the Rust .so files live. A scratch worktree (VERIF_REPO=/tmp/wt) without its own target/ borrows
    /repo/target (python-only mutants); give it a target/ (cp -a /repo/target) to rebuild Rust there."""
    t = os.path.join(REPO, "target")
    return t if os.path.isdir(t) else "/repo/target"


def rustbuild():
    """cargo build --offline of the six extension crates; ~0.3 s when nothing changed."""
    global _built
    if _built or os.environ.get("VF_RUST_BUILT"):
        return
    if not os.path.isdir(os.path.join(REPO, "target")):
        _built = True
        return
    env = dict(os.environ, CARGO_NET_OFFLINE="true")
    p = subprocess.run(["cargo", "build", "--offline", "-q", "-p", "osutils-py", "-p", "cmd-py", "-p", "patch-py",
                        "-p", "git-py", "-p", "annotate-py", "-p", "zlib-util-py"],
                       cwd=REPO, env=env, capture_output=True, text=True)
    if p.returncode != 0:
        raise MachineryError("cargo build failed:\n" + (p.stdout + p.stderr)[-3000:])
    _built = True
    os.environ["VF_RUST_BUILT"] = "1"     # inherited by worker processes


class _Finder(importlib.abc.MetaPathFinder):
    def find_spec(self, name, path, target=None):
        so = RUST.get(name)
        if so is None:
            return None
        f = os.path.join(target_dir(), "debug", so)
        if not os.path.exists(f):
            return None
        loader = importlib.machinery.ExtensionFileLoader(name, f)
        return importlib.util.spec_from_file_location(name, f, loader=loader)


_inited = False


def init(home=None):
    """Import breezy from REPO with freshly built Rust extensions. Idempotent."""
    global _inited
    if _inited:
        import breezy
        return breezy
    rustbuild()
    if not any(isinstance(f, _Finder) for f in sys.meta_path):
        sys.meta_path.insert(0, _Finder())
    if REPO not in sys.path:
        sys.path.insert(0, REPO)
    import tempfile
    home = home or tempfile.mkdtemp(prefix="vf-home-", dir=os.environ.get("TMPDIR") or None)
    os.environ["BRZ_HOME"] = home
    os.environ["HOME"] = home
    os.environ.setdefault("BRZ_EMAIL", "T <t@e.com>")
    os.environ[GUARD] = "1"
    os.environ.pop("BRZ_PLUGIN_PATH", None)
    import breezy
    if not breezy.__file__.startswith(REPO):
        raise MachineryError("breezy imported from %s, not %s" % (breezy.__file__, REPO))
    import breezy.bzr  # noqa
    import breezy.git  # noqa
    breezy.initialize()
    import breezy._osutils_rs as o
    if "target/debug" not in o.__file__:
        raise MachineryError("rust extension loaded from %s" % o.__file__)
    from breezy import trace
    trace.be_quiet(True)
    import atexit, shutil
    atexit.register(lambda: shutil.rmtree(home, ignore_errors=True))
    _inited = True
    return breezy
