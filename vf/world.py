"""Concretisation / projection helpers shared by the history-, tree- and channel-level harnesses.

Abstract histories: a DAG is a list of (rev, parents) with rev ids like "r1".."rN" (strings) created in order, parents
only among earlier revisions (or ghost ids).  Abstract trees: {path: (kind, content, executable)} with kind in
{"file", "directory", "symlink"}; content is bytes for files, the target string for symlinks, None for directories.
"""
import hashlib
import io
import os


def rid(r):
    return r if isinstance(r, bytes) else str(r).encode()


# ----------------------------------------------------------------------------- building histories
def memory_branch(fmt="2a", url=None):
    """A fresh branch (with repository) on a new MemoryTransport; returns (branch, server)."""
    from breezy import controldir
    from dromedary import memory
    srv = None
    if url is None:
        srv = memory.MemoryServer()
        srv.start_server()
        url = srv.get_url()
    f = controldir.format_registry.make_controldir(fmt)
    b = controldir.ControlDir.create_branch_convenience(url + "b", format=f, force_new_tree=False)
    return b, srv


def build_dag(dag, fmt="2a", trees=None, branch=None, props=None, timestamp=1000000000, committer="C <c@e.com>"):
    """Materialise an abstract DAG with BranchBuilder.  dag: [(rev, [parents...])]; trees: optional {rev: abstract tree}
    (default: every revision touches file 'f' and keeps one file per revision so that every text differs).
    Ghost parents (ids not in the dag) are kept as given.  Returns the branch (tip = last rev in dag)."""
    from breezy.tests import branchbuilder  # noqa  (plain helper class; no test framework needed)
    from breezy import transport as T
    from dromedary import memory
    if branch is None:
        srv = memory.MemoryServer()
        srv.start_server()
        bb = branchbuilder.BranchBuilder(T.get_transport(srv.get_url()), format=fmt)
    else:
        bb = branchbuilder.BranchBuilder(branch=branch)
    bb.start_series()
    known = set()
    prev_tree = {}
    first = True
    for i, (rev, parents) in enumerate(dag):
        want = dict(trees[rev]) if trees and rev in trees else None
        if want is None:
            base = dict(prev_tree_of(dag, rev, parents, prev_tree))
            base["f"] = ("file", ("content of %s\n" % rev).encode(), False)
            base["f_" + str(rev)] = ("file", ("own %s\n" % rev).encode(), False)
            want = base
        basis = prev_tree.get(parents[0], {}) if parents and parents[0] in prev_tree else {}
        actions = []
        if first and not (parents and parents[0] in known):
            actions.append(("add", ("", b"root-id", "directory", None)))
        # a revision with no (known) left parent starts from an empty tree again
        if not (parents and parents[0] in known):
            basis = {}
            if not first:
                actions.append(("add", ("", b"root-id", "directory", None)))
        for path in sorted(set(basis) - set(want), key=lambda p: -len(p)):
            actions.append(("unversion", path))
        for path in sorted(want, key=len):
            kind, content, ex = want[path]
            fid = file_id(path)
            if path not in basis:
                actions.append(("add", (path, fid, kind, content if kind != "symlink" else content)))
            elif basis[path] != want[path]:
                if basis[path][0] != kind:
                    actions.append(("unversion", path))
                    actions.append(("add", (path, fid, kind, content)))
                elif kind == "file":
                    actions.append(("modify", (path, content)))
        bb.build_snapshot([rid(p) for p in parents] if parents else (None if first else []), actions, revision_id=rid(rev),
                          timestamp=timestamp + i, committer=committer, message="msg %s" % rev,
                          **({"revprops": props[rev]} if props and rev in props else {}))
        known.add(rev)
        prev_tree[rev] = want
        first = False
    bb.finish_series()
    return bb.get_branch()


def prev_tree_of(dag, rev, parents, prev_tree):
    return prev_tree.get(parents[0], {}) if parents and parents[0] in prev_tree else {}


def file_id(path):
    return ("id-" + path.replace("/", "_")).encode()


# ----------------------------------------------------------------------------- projections
def tree_proj(tree, with_ids=False, skip_root=True):
    """Abstract projection of any breezy Tree: {path: [kind, sha1-of-content | target | None, executable]}."""
    out = {}
    with tree.lock_read():
        for path, ie in tree.iter_entries_by_dir():
            if skip_root and path == "":
                continue
            kind = ie.kind
            if kind == "file":
                val = hashlib.sha1(tree.get_file_text(path)).hexdigest()
                ex = bool(tree.is_executable(path))
            elif kind == "symlink":
                val, ex = tree.get_symlink_target(path), False
            else:
                val, ex = None, False
            out[path] = [kind, val, ex] + ([ie.file_id.decode("utf-8", "replace")] if with_ids and getattr(ie, "file_id", None) else [])
    return out


def disk_proj(root, skip=(".bzr", ".git")):
    """Projection of a directory on disk: {relpath: [kind, sha1 | target | None, executable]}."""
    out = {}
    for d, dirs, files in os.walk(root):
        dirs[:] = [x for x in dirs if not (d == root and x in skip)]
        for n in list(dirs) + files:
            p = os.path.join(d, n)
            rel = os.path.relpath(p, root)
            if os.path.islink(p):
                out[rel] = ["symlink", os.readlink(p), False]
            elif os.path.isdir(p):
                out[rel] = ["directory", None, False]
            else:
                with open(p, "rb") as f:
                    out[rel] = ["file", hashlib.sha1(f.read()).hexdigest(), bool(os.stat(p).st_mode & 0o100)]
    return out


def graph_proj(repo, tip):
    """{rev: [parents]} of the ancestry of tip (strings)."""
    with repo.lock_read():
        g = repo.get_graph()
        out = {}
        for r, ps in g.iter_ancestry([tip]):
            if ps is not None and r != b"null:":
                out[r.decode()] = [p.decode() for p in ps if p != b"null:"]
        return out


# ----------------------------------------------------------------------------- in-process smart server
def inproc_remote_transport(backing_transport, base="bzr://inproc/", short_reads=None):
    """RemoteTransport whose requests are served synchronously by a real SmartServerPipeStreamMedium over the
    given backing transport (no sockets, no threads)."""
    from breezy.bzr.smart import medium
    from breezy.transport import remote

    class InProcMedium(medium.SmartClientStreamMedium):
        def __init__(self):
            super().__init__(base)
            self._out = bytearray()
            self._in = bytearray()
            self.requests = 0

        def _accept_bytes(self, b):
            self._out += b

        def _flush(self):
            pass

        def _serve_pending(self):
            if not self._out:
                return
            inp = io.BytesIO(bytes(self._out))
            self._out.clear()
            outp = io.BytesIO()
            srv = medium.SmartServerPipeStreamMedium(inp, outp, backing_transport, timeout=5)
            srv._disconnect_client = lambda: None
            srv.serve()
            self.requests += 1
            self._in += outp.getvalue()

        def _read_bytes(self, count):
            if not self._in:
                self._serve_pending()
            data = bytes(self._in[:count])
            del self._in[:count]
            return data

        def disconnect(self):
            pass

    m = InProcMedium()
    return remote.RemoteTransport(base, medium=m), m
