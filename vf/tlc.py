"""Run TLC on the specs under /verif/specs and parse what it says.

All runs happen in a scratch copy of the (flattened) specs directory so nothing is written under /verif.
"""
import glob
import json
import os
import re
import shutil
import subprocess
import time

from . import tlaval
from .core import SPECS, MachineryError

JAR = "/opt/veriftools/tla/tla2tools.jar:/opt/veriftools/tla/CommunityModules-deps.jar"


def stage(workdir):
    """Flatten specs/ and specs/lib/ into workdir/specs (once per check run)."""
    d = os.path.join(workdir, "specs")
    if os.path.isdir(d):
        return d
    os.makedirs(d)
    for pat in ("*.tla", "*.cfg", "lib/*.tla"):
        for f in glob.glob(os.path.join(SPECS, pat)):
            shutil.copy(f, d)
    return d


_stats = re.compile(r"(\d+) states generated, (\d+) distinct states found")
_depth = re.compile(r"The depth of the complete state graph search is (\d+)")
_inv = re.compile(r"Error: Invariant (\S+) is violated")
_actprop = re.compile(r"Error: Action property (\S+) is violated")
_cov = re.compile(r"^<(\w+) line (\d+), col \d+ to line \d+, col \d+ of module (\w+)>: (\d+):(\d+)", re.M)


def run(ctx, module, cfg=None, mode="check", workers=16, depth=None, num=None, seed=None, env=None,
        timeout=3600, coverage=False, dump_dot=False, simfile=False, extra=(), dfs=False, allow_violation=False,
        deadlock=False, constants=None, cfg_text=None):
    """Run TLC. Returns a dict: generated, distinct, depth, violated, error, output, trace, wall_s, ...

    cfg_text: literal cfg contents (written to <module>_run.cfg); constants: dict appended to cfg as CONSTANT lines.
    """
    from .core import max_workers
    workers = min(workers, max_workers())
    d = stage(ctx.workdir)
    cfg = cfg or (module + ".cfg")
    if cfg_text is not None:
        cfg = "%s_run%d.cfg" % (module, len(os.listdir(d)))
        with open(os.path.join(d, cfg), "w") as f:
            f.write(cfg_text)
    elif constants:
        base = open(os.path.join(d, cfg)).read()
        cfg2 = "%s_run%d.cfg" % (module, len(os.listdir(d)))
        with open(os.path.join(d, cfg2), "w") as f:
            f.write(base + "\nCONSTANTS\n" + "\n".join("  %s = %s" % kv for kv in constants.items()) + "\n")
        cfg = cfg2
    meta = os.path.join(ctx.workdir, "tlcmeta%d" % int(time.time() * 1e6))
    jtmp = os.path.join(ctx.workdir, "jtmp")            # TLC drops a tlc-<n> directory into java.io.tmpdir per run:
    os.makedirs(jtmp, exist_ok=True)                    # keep it inside the check's scratch directory, not in /tmp
    args = ["java", "-XX:+UseParallelGC", "-Xmx12g", "-Djava.io.tmpdir=" + jtmp]
    if dfs:
        args.append("-Dtlc2.tool.queue.IStateQueue=StateDeque")
    args += ["-cp", JAR, "tlc2.TLC", "-metadir", meta, "-noGenerateSpecTE", "-config", cfg, "-workers", str(workers)]
    if not deadlock:
        args += ["-deadlock"]
    res = {"module": module, "cfg": cfg, "mode": mode}
    if mode == "simulate":
        sim = "num=%d" % (num or 100)
        if simfile:
            sd = os.path.join(ctx.workdir, "sim%d" % int(time.time() * 1e6))
            os.makedirs(sd)
            sim = "file=%s/tr,%s" % (sd, sim)
            res["simdir"] = sd
        args += ["-simulate", sim, "-depth", str(depth or 20)]
        if seed is not None:
            args += ["-seed", str(seed)]
    if coverage:
        args += ["-coverage", "1"]
    if dump_dot:
        dot = os.path.join(ctx.workdir, "graph%d" % int(time.time() * 1e6))
        args += ["-dump", "dot,actionlabels", dot]
        res["dot"] = dot + ".dot"
    args += list(extra) + [module + ".tla"]
    e = dict(os.environ)
    e.update(env or {})
    t0 = time.time()
    try:
        p = subprocess.run(args, cwd=d, env=e, capture_output=True, text=True, timeout=timeout)
    except subprocess.TimeoutExpired as ex:
        subprocess.run(["pkill", "-f", meta], check=False)
        raise MachineryError("TLC timed out after %ss on %s" % (timeout, module)) from ex
    finally:
        shutil.rmtree(meta, ignore_errors=True)
    out = p.stdout + p.stderr
    res["wall_s"] = round(time.time() - t0, 2)
    res["output"] = out
    res["rc"] = p.returncode
    m = _stats.findall(out)
    if m:
        res["generated"], res["distinct"] = int(m[-1][0]), int(m[-1][1])
    else:
        res["generated"] = res["distinct"] = 0
    m = _depth.search(out)
    res["depth"] = int(m.group(1)) if m else None
    m = _inv.search(out) or _actprop.search(out)
    res["violated"] = m.group(1) if m else None
    if res["violated"]:
        res["trace"] = parse_error_trace(out)
    if coverage:
        acts = {}
        for name, line, mod, tot, dist in _cov.findall(out):
            acts[name] = acts.get(name, 0) + int(tot)
        res["actions"] = acts
    ok_end = ("Model checking completed. No error has been found." in out
              or (mode == "simulate" and ("Finished in" in out or "The number of states generated" in out))
              or "Finished computing initial states" in out and "Finished in" in out)
    if res["violated"] and not allow_violation:
        pass
    if not ok_end and not res["violated"]:
        res["error"] = _error_text(out)
    if "error" in res and res["error"]:
        raise MachineryError("TLC failed on %s/%s: %s" % (module, cfg, res["error"][:2000]))
    return res


def _error_text(out):
    lines = [l for l in out.splitlines() if l.startswith("Error") or "error" in l.lower() or "Exception" in l]
    return "\n".join(lines[:30]) or out[-1500:]


_state_hdr = re.compile(r"^State (\d+): (?:<(\w+)[^>]*>|(\w[^\n]*))$", re.M)


def parse_error_trace(out):
    """Counter-example printed by TLC -> list of (action, state)."""
    ms = list(_state_hdr.finditer(out))
    tr = []
    for i, m in enumerate(ms):
        end = ms[i + 1].start() if i + 1 < len(ms) else len(out)
        body = out[m.end():end]
        # body ends at first blank line
        body = body.split("\n\n")[0]
        try:
            st = tlaval.parse_state(body)
        except ValueError:
            st = {"_raw": body}
        tr.append((m.group(2) or "Init", st))
    return tr


def check(ctx, module, cfg=None, expect_violation=None, label=None, **kw):
    """Model-check; invariants must hold (else MachineryError: the *design* is wrong, not the code).

    expect_violation: name of a witness invariant TLC must violate (anti-vacuity).
    """
    res = run(ctx, module, cfg, mode="check", **kw)
    if expect_violation:
        if res["violated"] != expect_violation:
            raise MachineryError("vacuity guard: %s/%s expected witness %s to be violated, got %s" % (
                module, res["cfg"], expect_violation, res["violated"]))
    elif res["violated"]:
        raise MachineryError("spec %s/%s violates %s — the model itself is wrong:\n%s" % (
            module, res["cfg"], res["violated"], res["output"][-3000:]))
    ctx.add_tlc(res, label)
    return res


def json_cases(ctx, module, cfg=None, outvar="VF_OUT", label=None, **kw):
    """Run a Gen module that writes JSON (JsonSerialize / ndJsonSerialize) to IOEnv.VF_OUT; return parsed data."""
    out = os.path.join(ctx.workdir, "cases_%s_%d.json" % (module, int(time.time() * 1e6)))
    env = dict(kw.pop("env", None) or {})
    env[outvar] = out
    res = run(ctx, module, cfg, env=env, **kw)
    if res.get("violated"):
        raise MachineryError("generator %s violated %s:\n%s" % (module, res["violated"], res["output"][-2000:]))
    if not os.path.exists(out):
        raise MachineryError("generator %s wrote no case file; output:\n%s" % (module, res["output"][-2000:]))
    with open(out) as f:
        txt = f.read()
    os.unlink(out)
    try:
        data = json.loads(txt)
    except ValueError:
        data = [json.loads(l) for l in txt.splitlines() if l.strip()]
    ctx.add_tlc(res, label)
    return data, res


_sim_state = re.compile(r"^\\\* <?(\w+)[^\n]*\nSTATE_(\d+) ==\s*\n(.*?)(?=^\\\* |\Z|^={4,})", re.M | re.S)


def simulate(ctx, module, cfg=None, num=100, depth=20, seed=0, label=None, **kw):
    """-simulate with one trace file per behaviour -> list of behaviours [(action, state), ...]."""
    res = run(ctx, module, cfg, mode="simulate", num=num, depth=depth, seed=seed, simfile=True, workers=1, **kw)
    behs = []
    for f in sorted(glob.glob(os.path.join(res["simdir"], "tr*"))):
        txt = open(f).read()
        b = []
        for m in _sim_state.finditer(txt):
            b.append((m.group(1), tlaval.parse_state(m.group(3))))
        if b:
            behs.append(b)
    shutil.rmtree(res["simdir"], ignore_errors=True)
    ctx.add_tlc(res, label)
    return behs, res


_node = re.compile(r'^(-?\d+) \[label="((?:[^"\\]|\\.)*)"([^\n]*)$', re.M)
_edge = re.compile(r'^(-?\d+) -> (-?\d+) \[label="((?:[^"\\]|\\.)*)"', re.M)


def graph(ctx, module, cfg=None, label=None, **kw):
    """Exhaustive check + dump of the labelled state graph.

    Returns (nodes {id: state}, edges [(src, action, dst)], inits [id], res)."""
    res = run(ctx, module, cfg, mode="check", dump_dot=True, **kw)
    if res["violated"]:
        raise MachineryError("spec %s violates %s" % (module, res["violated"]))
    txt = open(res["dot"]).read()
    os.unlink(res["dot"])
    nodes, inits = {}, []
    for m in _node.finditer(txt):
        lab = m.group(2).replace("\\n", "\n").replace('\\"', '"').replace("\\\\", "\\")
        nodes[m.group(1)] = lab
        if "style = filled" in m.group(3):
            inits.append(m.group(1))
    edges = [(a, act.replace('\\"', '"'), b) for a, b, act in _edge.findall(txt)]
    ctx.add_tlc(res, label)
    return nodes, edges, inits, res


def transition_cover(nodes, edges, inits, rng=None, max_len=None):
    """Init-rooted paths covering every edge of the graph at least once (greedy BFS-tree + edge extension).

    Yields lists [(action, node_id), ...] starting with ('Init', init)."""
    import collections
    out = collections.defaultdict(list)
    for a, act, b in edges:
        out[a].append((act, b))
    # BFS tree from inits: shortest path to each node
    parent = {i: None for i in inits}
    q = collections.deque(inits)
    while q:
        n = q.popleft()
        for act, b in out[n]:
            if b not in parent:
                parent[b] = (n, act)
                q.append(b)

    def path_to(n):
        p = []
        while parent[n] is not None:
            pn, act = parent[n]
            p.append((act, n))
            n = pn
        p.append(("Init", n))
        return p[::-1]

    covered = set()
    order = [e for e in edges if e[0] in parent]
    if rng:
        rng.shuffle(order)
    for a, act, b in order:
        if (a, act, b) in covered:
            continue
        p = path_to(a)
        for i in range(1, len(p)):
            covered.add((p[i - 1][1], p[i][0], p[i][1]))
        p.append((act, b))
        covered.add((a, act, b))
        # extend greedily through uncovered edges
        cur = b
        while max_len is None or len(p) < max_len:
            nxt = next(((ac, bb) for ac, bb in out[cur] if (cur, ac, bb) not in covered), None)
            if nxt is None:
                break
            covered.add((cur, nxt[0], nxt[1]))
            p.append(nxt)
            cur = nxt[1]
        yield p
