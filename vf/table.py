"""Case-table binding (pure functions / one-shot operations).

  Gen module  : TLC enumerates the bounded input space, checks the laws on the spec's own operators,
                exports [{c: input, spec: expected}, ...]                     (spec -> code)
  harness     : runs the real code on every case -> rows [{c, spec, impl}]
  Trace module: TLC evaluates the property's laws on the recorded impl results (code -> spec),
                returns the rows whose laws fail (verdict) or whose impl differs from spec (drift).
"""
import json
import os
import time

from . import tlc


def cfg(constants=None, invariants=(), init="Init", next_="Next", extra=""):
    t = "INIT %s\nNEXT %s\n" % (init, next_)
    for i in invariants:
        t += "INVARIANT %s\n" % i
    if constants:
        t += "CONSTANTS\n" + "".join("  %s = %s\n" % kv for kv in constants.items())
    return t + extra


def generate(ctx, gen_module, constants=None, invariants=("LawsHoldOnSpec",), witnesses=(), label=None, **kw):
    """Enumerate + design-check + export. witnesses: invariants TLC must violate (anti-vacuity)."""
    cases, res = tlc.json_cases(ctx, gen_module, cfg_text=cfg(constants, invariants), label=label or gen_module, **kw)
    for w in witnesses:
        tlc.check(ctx, gen_module, cfg_text=cfg(constants, (w,)), expect_violation=w, label="witness " + w,
                  workers=kw.get("workers", 16))
    return cases


def judge(ctx, trace_module, rows, constants=None, label=None, chunk=20000, **kw):
    """Feed recorded rows to the Trace module; returns list of bad rows: (row_dict, failed_laws, drift)."""
    bad = []
    for off in range(0, len(rows), chunk):
        part = rows[off:off + chunk]
        fin = os.path.join(ctx.workdir, "rows_%d.json" % int(time.time() * 1e6))
        with open(fin, "w") as f:
            json.dump(part, f)
        data, res = tlc.json_cases(ctx, trace_module, cfg_text=cfg(constants), env={"VF_IN": fin},
                                   label=label or trace_module, **kw)
        os.unlink(fin)
        if data["n"] != len(part):
            ctx.machinery("trace module consumed %s of %d rows" % (data["n"], len(part)))
        for b in data["bad"]:
            bad.append((part[b["row"] - 1], list(b.get("failed", [])), bool(b.get("drift"))))
        ctx.count(0, traces=len(part))
    return bad
