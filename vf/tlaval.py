"""Parser for TLA+ values as printed by TLC (state dumps, -simulate trace files, dot labels).

Python representation: ints, bool, str (strings), Mv(name) for model values (a str subclass),
frozenset for sets, tuple for sequences, dict for records and functions (function keys are parsed values;
a function with domain 1..n printed as <<...>> is a tuple).
"""
import re


class Mv(str):
    """A TLC model value / bare identifier."""
    def __repr__(self):
        return "Mv(%s)" % str.__repr__(self)


class FrozenDict(dict):
    def __hash__(self):
        return hash(frozenset(self.items()))


_tok = re.compile(r'''\s*(?:(?P<str>"(?:[^"\\]|\\.)*")|(?P<num>-?\d+)|(?P<op><<|>>|\|->|:>|@@|\.\.|[\[\]{}(),])|(?P<id>[A-Za-z_][A-Za-z0-9_!]*))''')


def tokenize(s):
    pos = 0
    out = []
    n = len(s)
    while pos < n:
        m = _tok.match(s, pos)
        if not m:
            if s[pos:].strip() == "":
                break
            raise ValueError("cannot tokenize TLA value at %r" % s[pos:pos + 40])
        pos = m.end()
        if m.group("str") is not None:
            raw = m.group("str")[1:-1]
            out.append(("str", raw.replace('\\"', '"').replace("\\\\", "\\").replace("\\n", "\n").replace("\\t", "\t")))
        elif m.group("num") is not None:
            out.append(("num", int(m.group("num"))))
        elif m.group("op") is not None:
            out.append(("op", m.group("op")))
        else:
            out.append(("id", m.group("id")))
    return out


class _P:
    def __init__(self, toks):
        self.t = toks
        self.i = 0

    def peek(self):
        return self.t[self.i] if self.i < len(self.t) else (None, None)

    def eat(self, kind=None, val=None):
        k, v = self.peek()
        if (kind and k != kind) or (val is not None and v != val):
            raise ValueError("expected %s %s got %s %s at %d" % (kind, val, k, v, self.i))
        self.i += 1
        return v

    def value(self):
        v = self.atom()
        # function merge a :> b @@ c :> d
        k, o = self.peek()
        if k == "op" and o == ":>":
            d = FrozenDict()
            self.eat()
            d[v] = self.atom_noext()
            while self.peek() == ("op", "@@"):
                self.eat()
                kk = self.atom()
                self.eat("op", ":>")
                d[kk] = self.atom_noext()
            return d
        if k == "op" and o == "..":
            self.eat()
            hi = self.atom()
            return frozenset(range(v, hi + 1))
        return v

    def atom_noext(self):
        return self.atom()

    def atom(self):
        k, v = self.peek()
        if k == "num" or k == "str":
            self.eat()
            return v
        if k == "id":
            self.eat()
            if v == "TRUE":
                return True
            if v == "FALSE":
                return False
            return Mv(v)
        if k == "op" and v == "<<":
            self.eat()
            items = []
            while self.peek() != ("op", ">>"):
                items.append(self.value())
                if self.peek() == ("op", ","):
                    self.eat()
            self.eat("op", ">>")
            return tuple(items)
        if k == "op" and v == "{":
            self.eat()
            items = []
            while self.peek() != ("op", "}"):
                items.append(self.value())
                if self.peek() == ("op", ","):
                    self.eat()
            self.eat("op", "}")
            return frozenset(items)
        if k == "op" and v == "[":
            self.eat()
            d = FrozenDict()
            while self.peek() != ("op", "]"):
                name = self.eat("id")
                self.eat("op", "|->")
                d[str(name)] = self.value()
                if self.peek() == ("op", ","):
                    self.eat()
            self.eat("op", "]")
            return d
        if k == "op" and v == "(":
            self.eat()
            x = self.value()
            self.eat("op", ")")
            return x
        raise ValueError("unexpected token %s %s at %d" % (k, v, self.i))


def parse_value(s):
    p = _P(tokenize(s))
    v = p.value()
    if p.i != len(p.t):
        raise ValueError("trailing tokens in TLA value: %r" % (p.t[p.i:p.i + 5],))
    return v


_conj = re.compile(r'^\s*/\\ ([A-Za-z_][A-Za-z0-9_]*) = ', re.M)


def parse_state(text):
    """Parse '/\\ x = v\\n/\\ y = w' (values may span lines) into {var: value}."""
    ms = list(_conj.finditer(text))
    if not ms:
        # single variable: 'x = v'
        m = re.match(r'\s*([A-Za-z_][A-Za-z0-9_]*) = (.*)', text, re.S)
        if not m:
            raise ValueError("cannot parse state %r" % text[:80])
        return {m.group(1): parse_value(m.group(2))}
    out = {}
    for i, m in enumerate(ms):
        end = ms[i + 1].start() if i + 1 < len(ms) else len(text)
        out[m.group(1)] = parse_value(text[m.end():end])
    return out


def to_py(v):
    """Convert parsed value to plain JSON-friendly python (sets -> sorted lists, Mv -> str)."""
    if isinstance(v, (frozenset, set)):
        return sorted((to_py(x) for x in v), key=repr)
    if isinstance(v, tuple):
        return [to_py(x) for x in v]
    if isinstance(v, dict):
        return {(str(k) if isinstance(k, (str, int)) else repr(to_py(k))): to_py(x) for k, x in v.items()}
    if isinstance(v, Mv):
        return str(v)
    return v
