"""Deterministic scheduler + gating/logging/fault-injecting transport decorator (DESIGN 2.3).

"Processes" are threads; exactly one runs at a time.  step(p) lets p perform its pending transport operation
and run on until it is about to perform the next one (or finishes).  Every gated operation is appended to
world.log as (proc, seq, op, relpath, outcome) while the scheduler token is held - no wall-clock ordering.
"""
import os
import threading

from .core import MachineryError


class Killed(BaseException):
    """Unwinds a crashed process; its further transport calls are dropped."""


MUTATING = {"mkdir", "put_bytes", "put_bytes_non_atomic", "put_file", "put_file_non_atomic", "rename", "move",
            "delete", "rmdir", "delete_tree", "append_bytes", "append_file", "open_write_stream", "copy",
            "stream_write", "stream_close"}
READING = {"get_bytes", "get", "readv", "has", "stat", "list_dir", "iter_files_recursive"}


class World:
    """One scenario: a backing transport, processes, schedule log, fault plan."""

    current = None

    def __init__(self, backing_url=None, significant=None):
        from dromedary import memory
        self.server = None
        if backing_url is None or backing_url == "memory":
            self.server = memory.MemoryServer()
            self.server.start_server()
            backing_url = self.server.get_url()
        self.backing_url = backing_url
        self.cv = threading.Condition()
        self.turn = None
        self.procs = {}
        self.local = threading.local()
        self.log = []
        self.significant = significant or (lambda op, path: op in MUTATING or op in READING)
        self.faults = {}          # (proc, n) -> exception factory : the n-th gated op of proc fails (not performed)
        self.opcount = {}
        self.timeout = 60
        World.current = self
        _register()

    # ---- transports
    def url(self, rel=""):
        return "xt+" + self.backing_url + rel

    def transport(self, rel=""):
        from breezy import transport as T
        _register()
        World.current = self
        return T.get_transport(self.url(rel))

    def raw(self, rel=""):
        from breezy import transport as T
        return T.get_transport(self.backing_url + rel)

    def close(self):
        self.finish_all(kill=True)
        if self.server is not None:
            self.server.stop_server()
        if World.current is self:
            World.current = None

    # ---- processes
    def me(self):
        return getattr(self.local, "name", None)

    def spawn(self, name, fn):
        st = {"state": "new", "result": None, "pending": None, "kill": False, "crashed": False, "seq": 0}

        def run():
            self.local.name = name
            with self.cv:
                st["state"] = "waiting"
                self.cv.notify_all()
                while self.turn != name:
                    self.cv.wait()
            try:
                if st["kill"]:
                    raise Killed()
                st["result"] = ("ok", fn())
            except Killed:
                st["result"] = ("killed", None)
            except BaseException as e:  # noqa
                import traceback
                st["result"] = ("exc", type(e).__name__, str(e)[:200])
                st["tb"] = [(os.path.basename(f.filename), f.name) for f in traceback.extract_tb(e.__traceback__)]
            with self.cv:
                st["state"] = "done"
                st["pending"] = None
                self.turn = None
                self.cv.notify_all()

        th = threading.Thread(target=run, daemon=True, name="vf-" + str(name))
        st["thread"] = th
        self.procs[name] = st
        th.start()
        with self.cv:
            while st["state"] == "new":
                self.cv.wait()
        # run to the first gate
        self._give_turn(name)
        return st

    def _give_turn(self, name):
        st = self.procs[name]
        with self.cv:
            if st["state"] == "done":
                return
            self.turn = name
            self.cv.notify_all()
            while self.turn == name:
                if not self.cv.wait(self.timeout):
                    raise MachineryError("process %s did not yield within %ss (pending=%s)" % (
                        name, self.timeout, st["pending"]))

    def gate(self, op, path):
        """Called by the transport before a significant op."""
        name = self.me()
        if name is None:
            return None
        st = self.procs[name]
        if st["crashed"]:
            raise Killed()
        with self.cv:
            st["pending"] = (op, path)
            st["state"] = "waiting"
            self.turn = None
            self.cv.notify_all()
            while self.turn != name:
                self.cv.wait()
            if st["kill"]:
                st["crashed"] = True
                raise Killed()
            st["state"] = "running"
        st["seq"] += 1
        return st

    def pending(self, name):
        st = self.procs[name]
        return None if st["state"] == "done" else st["pending"]

    def done(self, name):
        return self.procs[name]["state"] == "done"

    def result(self, name):
        return self.procs[name]["result"]

    def step(self, name):
        """Perform name's pending op and run it to its next gate. Returns the log entries produced."""
        n0 = len(self.log)
        self._give_turn(name)
        return self.log[n0:]

    def crash(self, name):
        """The process stops here for good (its pending op is never performed)."""
        st = self.procs[name]
        st["kill"] = True
        st["crashed"] = True

    def finish_all(self, kill=False, order=None):
        """Run every live process to completion (or unwind crashed ones)."""
        for name in (order or list(self.procs)):
            st = self.procs[name]
            if st["crashed"] or kill:
                st["kill"] = True
                st["crashed"] = True
            guard = 0
            while st["state"] != "done":
                self._give_turn(name)
                guard += 1
                if guard > 100000:
                    raise MachineryError("process %s does not terminate" % name)

    def record(self, op, path, outcome, extra=None):
        name = self.me()
        seq = self.procs[name]["seq"] if name in self.procs else 0
        self.log.append({"p": name, "seq": seq, "op": op, "path": path, "res": outcome, **(extra or {})})


_registered = False


def _register():
    global _registered
    if _registered:
        return
    from breezy import transport as T
    from dromedary import decorator
    from dromedary.errors import TransportError

    class XT(decorator.TransportDecorator):
        @classmethod
        def _get_url_prefix(cls):
            return "xt+"

    def rel(self, p):
        # path relative to the world's backing root
        try:
            base = self._decorated.base
            root = World.current.backing_url
            pre = base[len(root):] if base.startswith(root) else base
            return (pre + (p or "")).strip("/")
        except Exception:
            return p

    def mk(n):
        def f(self, *a, **k):
            w = World.current
            p0 = a[0] if a else None
            path = rel(self, p0) if isinstance(p0, str) else None
            if w is None or not w.significant(n, path):
                return getattr(self._decorated, n)(*a, **k)
            st = w.gate(n, path)
            extra = {}
            if n in ("rename", "move", "copy") and len(a) > 1:
                extra["to"] = rel(self, a[1])
            if st is not None:
                key = (w.me(), st["seq"])
                w.opcount[w.me()] = st["seq"]
                if key in w.faults:
                    w.record(n, path, "FAULT", extra)
                    raise w.faults[key]()
            try:
                r = getattr(self._decorated, n)(*a, **k)
            except Exception as e:
                w.record(n, path, type(e).__name__, extra)
                raise
            if n == "open_write_stream":
                r = _Stream(r, w, path)
            w.record(n, path, "ok", extra)
            return r
        f.__name__ = n
        return f

    for n in MUTATING | READING:
        if n.startswith("stream_"):
            continue
        setattr(XT, n, mk(n))

    T.register_transport("xt+", lambda url: XT(url))
    _registered = True


class _Stream:
    """File stream returned by open_write_stream: write/close are gated operations too."""

    def __init__(self, s, world, path):
        self._s, self._w, self._path = s, world, path

    def write(self, data):
        w = self._w
        if w.significant("stream_write", self._path):
            w.gate("stream_write", self._path)
            r = self._s.write(data)
            w.record("stream_write", self._path, "ok", {"n": len(data)})
            return r
        return self._s.write(data)

    def close(self, *a, **k):
        w = self._w
        if w.significant("stream_close", self._path):
            w.gate("stream_close", self._path)
            r = self._s.close(*a, **k)
            w.record("stream_close", self._path, "ok")
            return r
        return self._s.close(*a, **k)

    def __enter__(self):
        return self

    def __exit__(self, *exc):
        self.close()
        return False

    def __getattr__(self, n):
        return getattr(self._s, n)


def transport_error():
    from dromedary.errors import TransportError
    return TransportError("injected fault")
