#!/bin/sh
# Build everything the checks need, offline, from files on disk only.
set -e
cd "$(dirname "$0")"
export CARGO_NET_OFFLINE=true
(cd /repo && cargo build --offline -q -p osutils-py -p cmd-py -p patch-py -p git-py -p annotate-py -p zlib-util-py 2>&1 | grep -E "^error" || true)
# parse every spec once (fails fast on syntax errors)
tmp=$(mktemp -d)
cp specs/*.tla specs/lib/*.tla "$tmp"/ 2>/dev/null || true
fail=0
for f in "$tmp"/*.tla; do
  (cd "$tmp" && java -cp /opt/veriftools/tla/tla2tools.jar:/opt/veriftools/tla/CommunityModules-deps.jar tla2sany.SANY "$(basename "$f")" >"$f.log" 2>&1) || { echo "SANY failed: $f"; tail -5 "$f.log"; fail=1; }
done
rm -rf "$tmp"
exit $fail
